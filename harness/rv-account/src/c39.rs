//! C39: account deposit rules are enforced exactly.
//!
//! Reference model (written from the property text, see `Model`): an account's deposit
//! configuration (default rule, per-resource preferences, authorized-depositor list) is tracked
//! from the history of *successful* owner configuration transactions; the outcome class of every
//! guarded deposit (all deposited / all refunded / call failed) and the exact per-vault deltas
//! are predicted from it and compared with what the ledger did.
use crate::c39_gen;
use rv_common::*;
use rv_ledger::actions::{all_allowed_fungible_roles, all_allowed_non_fungible_roles, Nfd, World};
use rv_ledger::decode::{self, Db};
use rv_ledger::prelude::*;
use rv_ledger::{outcome_class, Ledger};
use serde_json::{json, Value};
use std::collections::{BTreeMap, BTreeSet};
use std::time::Duration;

// ---------------------------------------------------------------------------------------------
// Resource table (indices are what histories refer to, so that a history replays on any ledger)
// ---------------------------------------------------------------------------------------------
pub const R_XRD: usize = 0;
pub const R_FA: usize = 1; // fungible, divisibility 18
pub const R_FB: usize = 2; // fungible, divisibility 0
pub const R_FC: usize = 3; // fungible, divisibility 2
pub const R_NA: usize = 4; // non-fungible, integer ids
pub const R_NB: usize = 5; // non-fungible, string ids
pub const R_BF: usize = 6; // fungible badge (sender holds)
pub const R_BN: usize = 7; // non-fungible badge, ids 1..=4 (sender holds)
pub const R_BO: usize = 8; // fungible badge the sender does NOT hold (bystander holds)
pub const N_RES: usize = 9;
/// resources that are put into buckets
pub const DEPOSITABLE: [usize; 6] = [R_XRD, R_FA, R_FB, R_FC, R_NA, R_NB];

#[derive(Clone, Debug)]
pub struct Res {
    pub addr: ResourceAddress,
    pub fungible: bool,
    pub div: u8,
    pub string_ids: bool,
}

pub fn res_name(i: usize) -> &'static str {
    ["XRD", "FA", "FB", "FC", "NA", "NB", "BF", "BN", "BO"][i]
}

// ---------------------------------------------------------------------------------------------
// Histories
// ---------------------------------------------------------------------------------------------
#[derive(Clone, Copy, Debug, PartialEq, Eq, Hash, PartialOrd, Ord)]
pub enum Rule {
    Accept,
    Reject,
    AllowExisting,
}

/// A badge as it is named in calls / stored in the depositor list.
#[derive(Clone, Debug, PartialEq, Eq, Hash, PartialOrd, Ord)]
pub enum Badge {
    /// any amount of resource i
    Res(usize),
    /// one non-fungible of resource i
    Nf(usize, u64),
    /// signature badge of key k: 0 = the sender (always signs the deposit), 1 = a key that never
    /// signs, 2 = the target account's owner key (signs only when `owner_signs`)
    Sig(u8),
}

#[derive(Clone, Debug, PartialEq, Eq, Hash)]
pub enum Step {
    SetRule(Rule),
    SetPref(usize, bool),
    RemovePref(usize),
    AddDep(Badge),
    RemoveDep(Badge),
    /// owner-authorised plain `deposit` (set-up only): fungible `qty` units / freshly minted ids
    OwnerDeposit { res: usize, qty: u64, ids: Vec<u64> },
    /// owner withdraws everything of that resource (vault stays, balance 0)
    OwnerWithdrawAll(usize),
}

#[derive(Clone, Copy, Debug, PartialEq, Eq, Hash)]
pub enum Variant {
    SingleRefund,
    SingleAbort,
    BatchRefund,
    BatchAbort,
}
impl Variant {
    pub const ALL: [Variant; 4] = [Variant::SingleRefund, Variant::SingleAbort, Variant::BatchRefund, Variant::BatchAbort];
    pub fn is_refund(self) -> bool {
        matches!(self, Variant::SingleRefund | Variant::BatchRefund)
    }
    pub fn is_batch(self) -> bool {
        matches!(self, Variant::BatchRefund | Variant::BatchAbort)
    }
    pub fn name(self) -> &'static str {
        match self {
            Variant::SingleRefund => "try_deposit_or_refund",
            Variant::SingleAbort => "try_deposit_or_abort",
            Variant::BatchRefund => "try_deposit_batch_or_refund",
            Variant::BatchAbort => "try_deposit_batch_or_abort",
        }
    }
}

#[derive(Clone, Debug, PartialEq, Eq, Hash)]
pub struct BucketSpec {
    pub res: usize,
    /// fungible: amount in the resource's smallest units (10^-divisibility); 0 = empty bucket
    pub qty: u64,
    /// non-fungible: ids minted in the depositing transaction; empty = empty bucket
    pub ids: Vec<u64>,
}

#[derive(Clone, Copy, Debug, PartialEq, Eq, Hash)]
pub enum Placement {
    /// proofs are in the auth zone when the guarded deposit is called
    Before,
    /// proofs were created and then dropped from the auth zone before the call
    Dropped,
    /// proofs are only created after the call
    After,
}

#[derive(Clone, Debug, PartialEq, Eq, Hash)]
pub struct ProofSpec {
    pub res: usize,
    /// non-fungible resource: the ids proven; fungible: empty (proof of 1 whole unit)
    pub ids: Vec<u64>,
}

#[derive(Clone, Debug, PartialEq, Eq, Hash)]
pub struct GDep {
    pub variant: Variant,
    pub buckets: Vec<BucketSpec>,
    /// batch given as `Expression("ENTIRE_WORKTOP")` (buckets must be of distinct resources, non-empty)
    pub entire_worktop: bool,
    pub badge: Option<Badge>,
    pub proofs: Vec<ProofSpec>,
    pub placement: Placement,
    /// the account owner co-signs (the guarded methods have no owner exception)
    pub owner_signs: bool,
    /// fungible buckets (except XRD) are minted in the transaction instead of withdrawn from the sender
    pub mint_source: bool,
}

#[derive(Clone, Debug, PartialEq, Eq, Hash)]
pub enum Op {
    Setup(Vec<Step>),
    Deposit(GDep),
}

/// How the target account came into being.
#[derive(Clone, Copy, Debug, PartialEq, Eq, Hash)]
pub enum TargetKind {
    /// pre-allocated (virtual) account that nothing has touched yet: no vault at all, not even XRD
    Virtual,
    /// `Account::create_advanced` with an owner rule requiring the owner key's signature
    Advanced,
}

// ---------------------------------------------------------------------------------------------
// Reference model: the decision table of the property text
// ---------------------------------------------------------------------------------------------
#[derive(Clone, Debug)]
pub struct Model {
    pub rule: Rule,
    pub prefs: BTreeMap<usize, bool>,
    pub deps: BTreeSet<Badge>,
}

#[derive(Clone, Copy, Debug, PartialEq, Eq, Hash)]
pub enum Class {
    Deposited,
    Refunded,
    Failed,
}
impl Class {
    pub fn name(self) -> &'static str {
        match self {
            Class::Deposited => "all-deposited",
            Class::Refunded => "all-refunded",
            Class::Failed => "call-failed",
        }
    }
}

impl Model {
    pub fn new() -> Self {
        // a new account accepts everything
        Model { rule: Rule::Accept, prefs: BTreeMap::new(), deps: BTreeSet::new() }
    }
    pub fn apply(&mut self, s: &Step) {
        match s {
            Step::SetRule(r) => self.rule = *r,
            Step::SetPref(i, allowed) => {
                self.prefs.insert(*i, *allowed);
            }
            Step::RemovePref(i) => {
                self.prefs.remove(i);
            }
            Step::AddDep(b) => {
                self.deps.insert(b.clone());
            }
            Step::RemoveDep(b) => {
                self.deps.remove(b);
            }
            Step::OwnerDeposit { .. } | Step::OwnerWithdrawAll(_) => {}
        }
    }
    /// explicit preference decides; otherwise the default rule: accept / reject / XRD or already held
    pub fn allowed(&self, res: usize, has_vault: bool) -> bool {
        match self.prefs.get(&res) {
            Some(true) => true,
            Some(false) => false,
            None => match self.rule {
                Rule::Accept => true,
                Rule::Reject => false,
                Rule::AllowExisting => res == R_XRD || has_vault,
            },
        }
    }
    /// (class, decision-table row)
    pub fn predict(&self, g: &GDep, has_vault: &[bool]) -> (Class, &'static str) {
        let any_refused = g.buckets.iter().any(|b| !self.allowed(b.res, has_vault[b.res]));
        if !any_refused {
            return (Class::Deposited, if g.buckets.is_empty() { "no-buckets" } else { "all-allowed" });
        }
        let otherwise = if g.variant.is_refund() { Class::Refunded } else { Class::Failed };
        match &g.badge {
            Some(b) if self.deps.contains(b) => {
                if proven(b, g) {
                    (Class::Deposited, "refused+listed-badge-proven")
                } else {
                    (Class::Failed, "refused+listed-badge-not-proven")
                }
            }
            Some(_) => (otherwise, "refused+unlisted-badge"),
            None => (otherwise, "refused+no-badge"),
        }
    }
}

/// Is the named badge proven to the account when the guarded deposit is called?
pub fn proven(b: &Badge, g: &GDep) -> bool {
    match b {
        Badge::Sig(0) => true,
        Badge::Sig(2) => g.owner_signs,
        Badge::Sig(_) => false,
        Badge::Res(r) => g.placement == Placement::Before && g.proofs.iter().any(|p| p.res == *r),
        Badge::Nf(r, id) => g.placement == Placement::Before && g.proofs.iter().any(|p| p.res == *r && p.ids.contains(id)),
    }
}

// ---------------------------------------------------------------------------------------------
// JSON encoding of histories (replay files)
// ---------------------------------------------------------------------------------------------
fn rule_s(r: Rule) -> &'static str {
    match r {
        Rule::Accept => "Accept",
        Rule::Reject => "Reject",
        Rule::AllowExisting => "AllowExisting",
    }
}
fn badge_j(b: &Badge) -> Value {
    match b {
        Badge::Res(i) => json!(["res", i]),
        Badge::Nf(i, id) => json!(["nf", i, id]),
        Badge::Sig(k) => json!(["sig", k]),
    }
}
fn badge_p(v: &Value) -> Badge {
    match v[0].as_str().unwrap() {
        "res" => Badge::Res(v[1].as_u64().unwrap() as usize),
        "nf" => Badge::Nf(v[1].as_u64().unwrap() as usize, v[2].as_u64().unwrap()),
        _ => Badge::Sig(v[1].as_u64().unwrap() as u8),
    }
}
fn ids_p(v: &Value) -> Vec<u64> {
    v.as_array().map(|a| a.iter().filter_map(|x| x.as_u64()).collect()).unwrap_or_default()
}
pub fn op_j(op: &Op) -> Value {
    match op {
        Op::Setup(steps) => json!({"setup": steps.iter().map(|s| match s {
            Step::SetRule(r) => json!(["set_rule", rule_s(*r)]),
            Step::SetPref(i, a) => json!(["set_pref", i, a]),
            Step::RemovePref(i) => json!(["remove_pref", i]),
            Step::AddDep(b) => json!(["add_dep", badge_j(b)]),
            Step::RemoveDep(b) => json!(["remove_dep", badge_j(b)]),
            Step::OwnerDeposit { res, qty, ids } => json!(["owner_deposit", res, qty, ids]),
            Step::OwnerWithdrawAll(i) => json!(["owner_withdraw_all", i]),
        }).collect::<Vec<_>>()}),
        Op::Deposit(g) => json!({"deposit": {
            "variant": g.variant.name(),
            "buckets": g.buckets.iter().map(|b| json!([b.res, b.qty, b.ids])).collect::<Vec<_>>(),
            "entire_worktop": g.entire_worktop,
            "badge": g.badge.as_ref().map(badge_j),
            "proofs": g.proofs.iter().map(|p| json!([p.res, p.ids])).collect::<Vec<_>>(),
            "placement": match g.placement { Placement::Before => "before", Placement::Dropped => "dropped", Placement::After => "after" },
            "owner_signs": g.owner_signs,
            "mint_source": g.mint_source,
        }}),
    }
}
pub fn op_p(v: &Value) -> Op {
    if let Some(steps) = v.get("setup").and_then(|s| s.as_array()) {
        Op::Setup(
            steps
                .iter()
                .map(|s| match s[0].as_str().unwrap() {
                    "set_rule" => Step::SetRule(match s[1].as_str().unwrap() {
                        "Accept" => Rule::Accept,
                        "Reject" => Rule::Reject,
                        _ => Rule::AllowExisting,
                    }),
                    "set_pref" => Step::SetPref(s[1].as_u64().unwrap() as usize, s[2].as_bool().unwrap()),
                    "remove_pref" => Step::RemovePref(s[1].as_u64().unwrap() as usize),
                    "add_dep" => Step::AddDep(badge_p(&s[1])),
                    "remove_dep" => Step::RemoveDep(badge_p(&s[1])),
                    "owner_deposit" => Step::OwnerDeposit { res: s[1].as_u64().unwrap() as usize, qty: s[2].as_u64().unwrap(), ids: ids_p(&s[3]) },
                    _ => Step::OwnerWithdrawAll(s[1].as_u64().unwrap() as usize),
                })
                .collect(),
        )
    } else {
        let d = &v["deposit"];
        Op::Deposit(GDep {
            variant: *Variant::ALL.iter().find(|x| x.name() == d["variant"].as_str().unwrap()).unwrap(),
            buckets: d["buckets"].as_array().unwrap().iter().map(|b| BucketSpec { res: b[0].as_u64().unwrap() as usize, qty: b[1].as_u64().unwrap(), ids: ids_p(&b[2]) }).collect(),
            entire_worktop: d["entire_worktop"].as_bool().unwrap_or(false),
            badge: if d["badge"].is_null() { None } else { Some(badge_p(&d["badge"])) },
            proofs: d["proofs"].as_array().unwrap().iter().map(|p| ProofSpec { res: p[0].as_u64().unwrap() as usize, ids: ids_p(&p[1]) }).collect(),
            placement: match d["placement"].as_str().unwrap() {
                "before" => Placement::Before,
                "dropped" => Placement::Dropped,
                _ => Placement::After,
            },
            owner_signs: d["owner_signs"].as_bool().unwrap_or(false),
            mint_source: d["mint_source"].as_bool().unwrap_or(false),
        })
    }
}

// ---------------------------------------------------------------------------------------------
// The world the scenarios run in
// ---------------------------------------------------------------------------------------------
pub struct Party {
    pub pk: Secp256k1PublicKey,
    pub account: ComponentAddress,
}
impl Party {
    fn from_key(n: u64) -> Party {
        let sk = Secp256k1PrivateKey::from_u64(n).expect("key");
        let pk = sk.public_key();
        Party { pk, account: ComponentAddress::preallocated_account_from_public_key(&pk) }
    }
    pub fn proof(&self) -> NonFungibleGlobalId {
        NonFungibleGlobalId::from_public_key(&self.pk)
    }
}

pub struct Base {
    pub res: Vec<Res>,
    /// the third party that signs every guarded deposit
    pub sender: Party,
    /// an account that takes part in nothing
    pub bystander: Party,
    /// a key that never signs anything
    pub other_key: Party,
    /// vaults a transaction that only locks a fee from the faucet touches
    pub system_vaults: BTreeSet<NodeId>,
    pub next_target: u64,
    pub next_id: u64,
}

pub struct Target {
    pub kind: TargetKind,
    pub owner: Party,
    pub account: ComponentAddress,
}

const KEY_BASE: u64 = 0x00C3_9000_0000;

fn units(res: &Res, qty: u64) -> Decimal {
    Decimal::from_attos(I192::from(qty as u128 * 10u128.pow(18 - res.div as u32)))
}

pub fn local_id(res: &Res, id: u64) -> NonFungibleLocalId {
    if res.string_ids {
        NonFungibleLocalId::string(format!("s_{id}")).unwrap()
    } else {
        NonFungibleLocalId::integer(id)
    }
}

fn nfd() -> Nfd {
    Nfd { counter: 0, fixed: "c39".into(), note: String::new() }
}

/// Harness-side set-up failure: propagates as a panic, i.e. an inconclusive run.
fn must(r: &rv_ledger::Exec, what: &str) {
    if !r.is_success() {
        panic!("C39 set-up step failed: {what}: {}", r.receipt.as_ref().map(|x| outcome_class(x)).unwrap_or_else(|| "panicked".into()));
    }
}

impl Base {
    pub fn new(ledger: &mut Ledger, shard: &mut Shard) -> Base {
        let sender = Party::from_key(KEY_BASE + 1);
        let bystander = Party::from_key(KEY_BASE + 2);
        let other_key = Party::from_key(KEY_BASE + 3);
        // XRD for the sender and the bystander (a new account accepts everything)
        for (p, n) in [(&sender, 3), (&bystander, 1)] {
            for _ in 0..n {
                let m = ManifestBuilder::new().lock_fee_from_faucet().get_free_xrd_from_faucet().try_deposit_entire_worktop_or_abort(p.account, None).build();
                must(&ledger.exec(shard, "c39:base_xrd", m, vec![]), "free xrd");
            }
        }
        let mut res = vec![Res { addr: XRD, fungible: true, div: 18, string_ids: false }];
        let mk_f = |ledger: &mut Ledger, shard: &mut Shard, div: u8, to: &Party| -> ResourceAddress {
            let m = ManifestBuilder::new()
                .lock_fee_from_faucet()
                .create_fungible_resource(OwnerRole::None, true, div, all_allowed_fungible_roles(), metadata!(), Some(dec!(1000000000)))
                .try_deposit_entire_worktop_or_abort(to.account, None)
                .build();
            let r = ledger.exec(shard, "c39:base_fungible", m, vec![]);
            must(&r, "create fungible");
            r.receipt().expect_commit(true).new_resource_addresses()[0]
        };
        let mk_n = |ledger: &mut Ledger, shard: &mut Shard, string_ids: bool, ids: Vec<NonFungibleLocalId>, to: &Party| -> ResourceAddress {
            let entries: Vec<(NonFungibleLocalId, Nfd)> = ids.into_iter().map(|i| (i, nfd())).collect();
            let t = if string_ids { NonFungibleIdType::String } else { NonFungibleIdType::Integer };
            let m = ManifestBuilder::new()
                .lock_fee_from_faucet()
                .create_non_fungible_resource(OwnerRole::None, t, true, all_allowed_non_fungible_roles(), metadata!(), Some(entries))
                .try_deposit_entire_worktop_or_abort(to.account, None)
                .build();
            let r = ledger.exec(shard, "c39:base_non_fungible", m, vec![]);
            must(&r, "create non-fungible");
            r.receipt().expect_commit(true).new_resource_addresses()[0]
        };
        for div in [18u8, 0, 2] {
            let addr = mk_f(ledger, shard, div, &sender);
            res.push(Res { addr, fungible: true, div, string_ids: false });
        }
        // NA / NB: the bystander holds two of each from the start (ids 1, 2)
        let na = mk_n(ledger, shard, false, vec![NonFungibleLocalId::integer(1), NonFungibleLocalId::integer(2)], &bystander);
        res.push(Res { addr: na, fungible: false, div: 0, string_ids: false });
        let nb = mk_n(ledger, shard, true, vec![NonFungibleLocalId::string("s_1").unwrap(), NonFungibleLocalId::string("s_2").unwrap()], &bystander);
        res.push(Res { addr: nb, fungible: false, div: 0, string_ids: true });
        let bf = mk_f(ledger, shard, 0, &sender);
        res.push(Res { addr: bf, fungible: true, div: 0, string_ids: false });
        let bn = mk_n(ledger, shard, false, (1..=4).map(NonFungibleLocalId::integer).collect(), &sender);
        res.push(Res { addr: bn, fungible: false, div: 0, string_ids: false });
        let bo = mk_f(ledger, shard, 0, &bystander);
        res.push(Res { addr: bo, fungible: true, div: 0, string_ids: false });
        // the bystander also holds some of every depositable fungible
        let mut b = ManifestBuilder::new().lock_fee_from_faucet();
        for i in [R_FA, R_FB, R_FC] {
            b = b.withdraw_from_account(sender.account, res[i].addr, units(&res[i], 1000));
        }
        let m = b.try_deposit_entire_worktop_or_abort(bystander.account, None).build();
        must(&ledger.exec(shard, "c39:base_bystander", m, vec![sender.proof()]), "fund bystander");
        // system vaults: whatever a fee-only transaction touches
        let m = ManifestBuilder::new().lock_fee_from_faucet().build();
        let r = ledger.exec(shard, "c39:base_fee_only", m, vec![]);
        must(&r, "fee only");
        let system_vaults = touched_vaults(r.receipt());
        Base { res, sender, bystander, other_key, system_vaults, next_target: 10, next_id: 1000 }
    }

    pub fn fresh_ids(&mut self, n: usize) -> Vec<u64> {
        (0..n)
            .map(|_| {
                self.next_id += 1;
                self.next_id
            })
            .collect()
    }

    pub fn new_target(&mut self, ledger: &mut Ledger, shard: &mut Shard, kind: TargetKind) -> Target {
        self.next_target += 1;
        let owner = Party::from_key(KEY_BASE + self.next_target);
        match kind {
            TargetKind::Virtual => {
                let account = owner.account;
                Target { kind, owner, account }
            }
            TargetKind::Advanced => {
                let m = ManifestBuilder::new().lock_fee_from_faucet().new_account_advanced(OwnerRole::Fixed(rule!(require(owner.proof()))), None).build();
                let r = ledger.exec(shard, "c39:new_account_advanced", m, vec![]);
                must(&r, "create_advanced");
                let account = r.receipt().expect_commit(true).new_component_addresses()[0];
                Target { kind, owner, account }
            }
        }
    }

    pub fn badge(&self, b: &Badge, t: &Target) -> ResourceOrNonFungible {
        match b {
            Badge::Res(i) => ResourceOrNonFungible::Resource(self.res[*i].addr),
            Badge::Nf(i, id) => ResourceOrNonFungible::NonFungible(NonFungibleGlobalId::new(self.res[*i].addr, local_id(&self.res[*i], *id))),
            Badge::Sig(0) => ResourceOrNonFungible::NonFungible(self.sender.proof()),
            Badge::Sig(2) => ResourceOrNonFungible::NonFungible(t.owner.proof()),
            Badge::Sig(_) => ResourceOrNonFungible::NonFungible(self.other_key.proof()),
        }
    }
}

pub fn touched_vaults(receipt: &TransactionReceipt) -> BTreeSet<NodeId> {
    match &receipt.result {
        TransactionResult::Commit(c) => c.state_updates.by_node.keys().filter(|n| decode::is_vault(n)).cloned().collect(),
        _ => BTreeSet::new(),
    }
}

pub fn account_vault(db: &Db, account: ComponentAddress, resource: ResourceAddress) -> Option<NodeId> {
    let reader = SystemDatabaseReader::new(db);
    reader
        .read_object_collection_entry::<_, VersionedAccountResourceVault>(
            account.as_node_id(),
            ModuleId::Main,
            ObjectCollectionKey::KeyValue(AccountCollection::ResourceVaultKeyValue.collection_index(), &resource),
        )
        .ok()
        .flatten()
        .map(|v| *v.fully_update_and_into_latest_version().0.as_node_id())
}

/// What an account holds of one resource.
#[derive(Clone, Debug, PartialEq, Eq)]
pub struct Hold {
    pub vault: Option<NodeId>,
    pub amount: Decimal,
    /// ids (non-fungible resources; only filled when `list_ids`)
    pub ids: BTreeSet<NonFungibleLocalId>,
}

fn holdings(db: &Db, base: &Base, account: ComponentAddress, list_ids: bool) -> Vec<Hold> {
    base.res
        .iter()
        .map(|r| {
            let vault = account_vault(db, account, r.addr);
            let amount = vault.and_then(|v| decode::vault_amount(db, &v)).unwrap_or(Decimal::ZERO);
            let ids = match (&vault, r.fungible, list_ids) {
                (Some(v), false, true) => decode::non_fungible_vault_ids(db, v).into_iter().collect(),
                _ => BTreeSet::new(),
            };
            Hold { vault, amount, ids }
        })
        .collect()
}

fn nf_vault_contains(db: &Db, vault: &NodeId, id: &NonFungibleLocalId) -> bool {
    decode::raw(db, vault, decode::nf_vault_index_partition(), &SubstateKey::Map(scrypto_encode(id).unwrap())).is_some()
}

// ---------------------------------------------------------------------------------------------
// Executor + oracle
// ---------------------------------------------------------------------------------------------
pub struct Runner<'a> {
    pub ledger: &'a mut Ledger,
    pub base: &'a mut Base,
}

fn step_manifest(mut b: ManifestBuilder, base: &Base, t: &Target, db: &Db, s: &Step, n: &mut usize) -> ManifestBuilder {
    match s {
        Step::SetRule(r) => b.call_method(
            t.account,
            ACCOUNT_SET_DEFAULT_DEPOSIT_RULE_IDENT,
            AccountSetDefaultDepositRuleInput {
                default: match r {
                    Rule::Accept => DefaultDepositRule::Accept,
                    Rule::Reject => DefaultDepositRule::Reject,
                    Rule::AllowExisting => DefaultDepositRule::AllowExisting,
                },
            },
        ),
        Step::SetPref(i, allowed) => b.call_method(
            t.account,
            ACCOUNT_SET_RESOURCE_PREFERENCE_IDENT,
            AccountSetResourcePreferenceInput { resource_address: base.res[*i].addr, resource_preference: if *allowed { ResourcePreference::Allowed } else { ResourcePreference::Disallowed } },
        ),
        Step::RemovePref(i) => b.call_method(t.account, ACCOUNT_REMOVE_RESOURCE_PREFERENCE_IDENT, AccountRemoveResourcePreferenceInput { resource_address: base.res[*i].addr }),
        Step::AddDep(bd) => b.call_method(t.account, ACCOUNT_ADD_AUTHORIZED_DEPOSITOR_IDENT, AccountAddAuthorizedDepositorInput { badge: base.badge(bd, t) }),
        Step::RemoveDep(bd) => b.call_method(t.account, ACCOUNT_REMOVE_AUTHORIZED_DEPOSITOR_IDENT, AccountRemoveAuthorizedDepositorInput { badge: base.badge(bd, t) }),
        Step::OwnerDeposit { res, qty, ids } => {
            let r = &base.res[*res];
            *n += 1;
            let name = format!("od{n}");
            if r.fungible {
                let amt = units(r, *qty);
                if *qty > 0 {
                    b = b.withdraw_from_account(base.sender.account, r.addr, amt);
                }
                b.take_from_worktop(r.addr, amt, &name).deposit(t.account, &name)
            } else if ids.is_empty() {
                b.take_from_worktop(r.addr, Decimal::ZERO, &name).deposit(t.account, &name)
            } else {
                let entries: Vec<(NonFungibleLocalId, Nfd)> = ids.iter().map(|i| (local_id(r, *i), nfd())).collect();
                b.mint_non_fungible(r.addr, entries).take_all_from_worktop(r.addr, &name).deposit(t.account, &name)
            }
        }
        Step::OwnerWithdrawAll(i) => {
            let r = &base.res[*i];
            match account_vault(db, t.account, r.addr) {
                None => b,
                Some(v) => {
                    let bal = decode::vault_amount(db, &v).unwrap_or(Decimal::ZERO);
                    b.withdraw_from_account(t.account, r.addr, bal).deposit_entire_worktop(base.sender.account)
                }
            }
        }
    }
}

fn deposit_manifest(base: &Base, t: &Target, g: &GDep) -> TransactionManifestV1 {
    let s = base.sender.account;
    let mut b = ManifestBuilder::new().lock_fee_from_faucet();
    let add_proofs = |mut b: ManifestBuilder| {
        for p in &g.proofs {
            let r = &base.res[p.res];
            b = if r.fungible {
                b.create_proof_from_account_of_amount(s, r.addr, units(r, 10u64.pow(r.div as u32)))
            } else {
                b.create_proof_from_account_of_non_fungibles(s, r.addr, p.ids.iter().map(|i| local_id(r, *i)).collect::<Vec<_>>())
            };
        }
        b
    };
    if g.placement != Placement::After {
        b = add_proofs(b);
    }
    if g.placement == Placement::Dropped {
        b = b.drop_auth_zone_regular_proofs();
    }
    let mut names: Vec<String> = vec![];
    for (i, bk) in g.buckets.iter().enumerate() {
        let r = &base.res[bk.res];
        let name = format!("b{i}");
        if r.fungible {
            let amt = units(r, bk.qty);
            if bk.qty > 0 {
                b = if g.mint_source && bk.res != R_XRD { b.mint_fungible(r.addr, amt) } else { b.withdraw_from_account(s, r.addr, amt) };
            }
            if !g.entire_worktop {
                b = b.take_from_worktop(r.addr, amt, &name);
            }
        } else {
            if !bk.ids.is_empty() {
                let entries: Vec<(NonFungibleLocalId, Nfd)> = bk.ids.iter().map(|i| (local_id(r, *i), nfd())).collect();
                b = b.mint_non_fungible(r.addr, entries);
            }
            if !g.entire_worktop {
                b = if bk.ids.is_empty() {
                    b.take_from_worktop(r.addr, Decimal::ZERO, &name)
                } else {
                    b.take_non_fungibles_from_worktop(r.addr, bk.ids.iter().map(|i| local_id(r, *i)).collect::<Vec<_>>(), &name)
                };
            }
        }
        names.push(name);
    }
    let badge = g.badge.as_ref().map(|x| base.badge(x, t));
    b = match (g.variant, g.entire_worktop) {
        (Variant::SingleRefund, _) => b.try_deposit_or_refund(t.account, badge, &names[0]),
        (Variant::SingleAbort, _) => b.try_deposit_or_abort(t.account, badge, &names[0]),
        (Variant::BatchRefund, false) => b.try_deposit_batch_or_refund(t.account, names.clone(), badge),
        (Variant::BatchAbort, false) => b.try_deposit_batch_or_abort(t.account, names.clone(), badge),
        (Variant::BatchRefund, true) => b.try_deposit_entire_worktop_or_refund(t.account, badge),
        (Variant::BatchAbort, true) => b.try_deposit_entire_worktop_or_abort(t.account, badge),
    };
    if g.placement == Placement::After {
        b = add_proofs(b);
    }
    // whatever came back goes to the sender (owner-authorised plain deposit_batch)
    b.deposit_entire_worktop(s).build()
}

fn call_index(m: &TransactionManifestV1) -> Option<usize> {
    m.instructions.iter().position(|i| matches!(i, InstructionV1::CallMethod(c) if c.method_name.starts_with("try_deposit")))
}

fn error_path(r: &TransactionReceipt) -> String {
    outcome_class(r)
}

/// Result of running one op: violations are reported on the shard; returns false if the history
/// should be abandoned (harness-side trouble).
impl<'a> Runner<'a> {
    fn ensure_sender_xrd(&mut self, shard: &mut Shard) {
        let db = self.ledger.db();
        let bal = account_vault(db, self.base.sender.account, XRD).and_then(|v| decode::vault_amount(db, &v)).unwrap_or(Decimal::ZERO);
        if bal < dec!(2000) {
            let m = ManifestBuilder::new().lock_fee_from_faucet().get_free_xrd_from_faucet().deposit_entire_worktop(self.base.sender.account).build();
            let r = self.ledger.exec(shard, "c39:refill_sender", m, vec![self.base.sender.proof()]);
            must(&r, "refill sender");
        }
    }

    pub fn run_op(&mut self, shard: &mut Shard, t: &Target, model: &mut Model, op: &Op, history: &dyn Fn() -> Value) {
        match op {
            Op::Setup(steps) => {
                let mut b = ManifestBuilder::new().lock_fee_from_faucet();
                let mut n = 0usize;
                for s in steps {
                    b = step_manifest(b, self.base, t, self.ledger.db(), s, &mut n);
                }
                let r = self.ledger.exec(shard, "c39:setup", b.build(), vec![t.owner.proof(), self.base.sender.proof()]);
                shard.count("c39:setup_transactions");
                if r.is_success() {
                    for s in steps {
                        model.apply(s);
                        shard.count(&format!(
                            "c39:step:{}",
                            match s {
                                Step::SetRule(_) => "set_default_deposit_rule",
                                Step::SetPref(..) => "set_resource_preference",
                                Step::RemovePref(_) => "remove_resource_preference",
                                Step::AddDep(_) => "add_authorized_depositor",
                                Step::RemoveDep(_) => "remove_authorized_depositor",
                                Step::OwnerDeposit { .. } => "owner_deposit",
                                Step::OwnerWithdrawAll(_) => "owner_withdraw_all",
                            }
                        ));
                    }
                } else {
                    // an owner configuration transaction is not expected to fail; nothing was applied
                    shard.count("c39:setup_failed");
                    if let Some(rc) = &r.receipt {
                        shard.seen("c39:setup_failure_classes", &outcome_class(rc));
                    }
                }
            }
            Op::Deposit(g) => self.run_deposit(shard, t, model, g, history),
        }
    }

    fn run_deposit(&mut self, shard: &mut Shard, t: &Target, model: &Model, g: &GDep, history: &dyn Fn() -> Value) {
        self.ensure_sender_xrd(shard);
        let base = &*self.base;
        let pre_db = self.ledger.db();
        let pre_t = holdings(pre_db, base, t.account, true);
        let pre_s = holdings(pre_db, base, base.sender.account, false);
        let pre_u = holdings(pre_db, base, base.bystander.account, true);
        let has_vault: Vec<bool> = pre_t.iter().map(|h| h.vault.is_some()).collect();
        let (pred, row) = model.predict(g, &has_vault);

        let manifest = deposit_manifest(base, t, g);
        let idx = call_index(&manifest);
        let mut proofs = vec![base.sender.proof()];
        if g.owner_signs {
            proofs.push(t.owner.proof());
        }
        let description = rv_ledger::describe_manifest(&manifest, &proofs);
        let r = self.ledger.exec(shard, &format!("c39:{}", g.variant.name()), manifest, proofs);
        let Some(receipt) = &r.receipt else {
            shard.count("c39:deposit_transaction_panicked");
            return;
        };
        let base = &*self.base;
        let post_db = self.ledger.db();
        let post_t = holdings(post_db, base, t.account, true);
        let post_s = holdings(post_db, base, base.sender.account, false);
        let post_u = holdings(post_db, base, base.bystander.account, true);

        // ---- coverage ----
        shard.count("c39:guarded_deposits");
        shard.count(&format!("c39:predicted:{}", pred.name()));
        shard.count(&format!("c39:row:{row}"));
        shard.count(&format!("c39:row:{row}:{}", g.variant.name()));
        shard.count(&format!("c39:variant:{}", g.variant.name()));
        shard.seen("c39:outcome_classes", &outcome_class(receipt));
        let refused_flags: Vec<bool> = g.buckets.iter().map(|b| !model.allowed(b.res, has_vault[b.res])).collect();
        let n_ref = refused_flags.iter().filter(|x| **x).count();
        if g.variant.is_batch() {
            shard.count(&format!("c39:batch_len:{}", g.buckets.len()));
            if n_ref > 0 && n_ref < g.buckets.len() {
                shard.count("c39:batch_partially_offending");
            }
            let distinct: BTreeSet<usize> = g.buckets.iter().map(|b| b.res).collect();
            if distinct.len() < g.buckets.len() {
                shard.count("c39:batch_with_duplicate_resources");
            }
            if g.entire_worktop {
                shard.count("c39:batch_entire_worktop");
            }
        }
        if g.buckets.iter().any(|b| b.qty == 0 && b.ids.is_empty()) {
            shard.count("c39:with_empty_bucket");
        }
        for b in &g.buckets {
            let hist = if b.res == R_XRD {
                if has_vault[b.res] { "xrd-vault" } else { "xrd-no-vault" }
            } else if !has_vault[b.res] {
                "never-seen"
            } else if pre_t[b.res].amount.is_zero() {
                "vault-zero-balance"
            } else {
                "vault-positive"
            };
            let pref = match model.prefs.get(&b.res) {
                None => "none",
                Some(true) => "allowed",
                Some(false) => "disallowed",
            };
            shard.count(&format!("c39:bucket:{}:{}:{}", rule_s(model.rule), pref, hist));
        }
        let badge_kind = match &g.badge {
            None => "none".to_string(),
            Some(b) => format!(
                "{}{}",
                if model.deps.contains(b) { "listed-" } else { "unlisted-" },
                match b {
                    Badge::Res(_) => "resource",
                    Badge::Nf(..) => "non-fungible",
                    Badge::Sig(_) => "signature",
                }
            ),
        };
        shard.count(&format!("c39:named_badge:{badge_kind}"));
        if let Some(b) = &g.badge {
            shard.count(if proven(b, g) { "c39:named_badge_proven" } else { "c39:named_badge_not_proven" });
        }
        shard.count(match g.placement {
            Placement::Before => "c39:proof_placement:before",
            Placement::Dropped => "c39:proof_placement:dropped",
            Placement::After => "c39:proof_placement:after",
        });
        shard.nontrivial(&(
            row,
            g.variant,
            model.rule,
            g.buckets.iter().map(|b| (b.res, model.prefs.get(&b.res).copied(), has_vault[b.res], b.qty == 0 && b.ids.is_empty())).collect::<Vec<_>>(),
            (&g.badge, g.badge.as_ref().map(|b| model.deps.contains(b)), g.proofs.iter().map(|p| (p.res, p.ids.clone())).collect::<Vec<_>>(), g.placement),
            (g.entire_worktop, g.owner_signs, g.mint_source, model.deps.len()),
        ));

        // ---- observation ----
        let detail = |what: &str, extra: Value| {
            json!({
                "what": what, "predicted": pred.name(), "decision_row": row, "extra": extra,
                "model": {"rule": rule_s(model.rule),
                          "prefs": model.prefs.iter().map(|(k, v)| format!("{}={}", res_name(*k), if *v { "Allowed" } else { "Disallowed" })).collect::<Vec<_>>(),
                          "depositors": model.deps.iter().map(badge_j).collect::<Vec<_>>(),
                          "target_has_vault": has_vault.iter().enumerate().filter(|(_, v)| **v).map(|(i, _)| res_name(i)).collect::<Vec<_>>()},
                "outcome": outcome_class(receipt),
                "transaction": description,
                "replay": history(),
            })
        };
        let commit = match &receipt.result {
            TransactionResult::Commit(c) => c,
            _ => {
                // rejected / aborted: nothing executed that the property speaks about
                shard.count("c39:deposit_transaction_not_committed");
                shard.seen("c39:not_committed_classes", &outcome_class(receipt));
                return;
            }
        };
        // expected deltas when everything is deposited
        let mut exp_amt: Vec<Decimal> = vec![Decimal::ZERO; N_RES];
        let mut exp_ids: Vec<BTreeSet<NonFungibleLocalId>> = vec![BTreeSet::new(); N_RES];
        for b in &g.buckets {
            let r = &base.res[b.res];
            if r.fungible {
                exp_amt[b.res] = exp_amt[b.res].checked_add(units(r, b.qty)).unwrap();
            } else {
                exp_amt[b.res] = exp_amt[b.res].checked_add(Decimal::from(b.ids.len() as u64)).unwrap();
                for i in &b.ids {
                    exp_ids[b.res].insert(local_id(r, *i));
                }
            }
        }
        let t_delta: Vec<Decimal> = (0..N_RES).map(|i| post_t[i].amount.checked_sub(pre_t[i].amount).unwrap()).collect();
        let t_unchanged = (0..N_RES).all(|i| t_delta[i].is_zero() && post_t[i].ids == pre_t[i].ids);
        let t_full = (0..N_RES).all(|i| {
            t_delta[i] == exp_amt[i] && post_t[i].ids.is_superset(&pre_t[i].ids) && post_t[i].ids.difference(&pre_t[i].ids).cloned().collect::<BTreeSet<_>>() == exp_ids[i]
        });
        let nothing_to_move = exp_amt.iter().all(|a| a.is_zero());
        let delta_str = || (0..N_RES).filter(|i| !t_delta[*i].is_zero() || !exp_amt[*i].is_zero()).map(|i| format!("{}: observed {} expected-if-deposited {}", res_name(i), t_delta[i], exp_amt[i])).collect::<Vec<_>>();

        // the call's own return value (refund variants): None = deposited, Some = buckets handed back
        let mut returned: Option<usize> = None;
        let observed = match &commit.outcome {
            TransactionOutcome::Failure(_) => Class::Failed,
            TransactionOutcome::Success(outputs) => {
                if g.variant.is_refund() {
                    let bytes = idx.and_then(|i| outputs.get(i)).and_then(|o| match o {
                        InstructionOutput::CallReturn(v) => Some(v.clone()),
                        _ => None,
                    });
                    let bytes = bytes.expect("output of the guarded deposit call");
                    if g.variant.is_batch() {
                        match scrypto_decode::<Option<Vec<Own>>>(&bytes).expect("Option<Vec<Bucket>>") {
                            None => Class::Deposited,
                            Some(v) => {
                                returned = Some(v.len());
                                Class::Refunded
                            }
                        }
                    } else {
                        match scrypto_decode::<Option<Own>>(&bytes).expect("Option<Bucket>") {
                            None => Class::Deposited,
                            Some(_) => {
                                returned = Some(1);
                                Class::Refunded
                            }
                        }
                    }
                } else {
                    Class::Deposited
                }
            }
        };
        shard.count(&format!("c39:observed:{}", observed.name()));
        if let TransactionOutcome::Failure(_) = &commit.outcome {
            shard.seen(&format!("c39:failure_errors:{row}"), &error_path(receipt));
        }
        // events of the target account (informational)
        let mut rejected_events = 0;
        for (id, _) in &commit.application_events {
            if let Emitter::Method(node, ModuleId::Main) = &id.0 {
                if node == t.account.as_node_id() {
                    shard.seen("c39:target_events", &id.1);
                    if id.1 == "RejectedDepositEvent" {
                        rejected_events += 1;
                    }
                }
            }
        }
        if observed == Class::Refunded {
            if rejected_events == n_ref {
                shard.count("c39:info:rejected_event_per_refused_bucket");
            } else {
                shard.count("c39:info:rejected_events_differ_from_refused_buckets");
            }
        }

        // (1) outcome class
        if observed != pred {
            shard.violation(
                format!("{}:{row}:predicted-{}:observed-{}", if g.variant.is_batch() { "batch" } else { "single" }, pred.name(), observed.name()),
                detail("outcome class differs from the decision table", json!({"target_deltas": delta_str(), "returned_buckets": returned})),
            );
            return;
        }
        shard.count("c39:outcome_class_as_predicted");
        // (2) exact deltas of the target account
        match observed {
            Class::Deposited => {
                if !t_full {
                    shard.violation("deposited:target-vault-deltas-differ", detail("all-deposited but the target's vault deltas are not the bucket contents", json!({"target_deltas": delta_str()})));
                    return;
                }
            }
            Class::Refunded | Class::Failed => {
                if !t_unchanged {
                    let sig = if t_full && !nothing_to_move { "not-deposited:buckets-deposited-anyway" } else { "not-deposited:target-vaults-changed" };
                    shard.violation(sig, detail("nothing may be deposited but the target's vaults changed", json!({"target_deltas": delta_str()})));
                    return;
                }
                // no vault may appear either
                if (0..N_RES).any(|i| pre_t[i].vault != post_t[i].vault) {
                    shard.violation("not-deposited:target-vault-created", detail("nothing was deposited but the target account gained a vault", json!({})));
                    return;
                }
            }
        }
        // (3) refund: every bucket came back untouched (the sender re-deposited the whole worktop)
        if observed == Class::Refunded {
            if g.variant.is_batch() && !g.entire_worktop && returned != Some(g.buckets.len()) {
                shard.violation("refunded:bucket-count-differs", detail("refund did not hand back as many buckets as were passed", json!({"returned": returned, "passed": g.buckets.len()})));
                return;
            }
        }
        if matches!(&commit.outcome, TransactionOutcome::Success(_)) {
            for i in 0..N_RES {
                let minted = !base.res[i].fungible || (g.mint_source && i != R_XRD);
                let mut expect = Decimal::ZERO;
                // source
                if !minted {
                    expect = expect.checked_sub(exp_amt[i]).unwrap();
                }
                // refund
                if observed == Class::Refunded {
                    expect = expect.checked_add(exp_amt[i]).unwrap();
                }
                let got = post_s[i].amount.checked_sub(pre_s[i].amount).unwrap();
                if got != expect {
                    shard.violation(
                        if observed == Class::Refunded { "refunded:sender-did-not-get-everything-back" } else { "deposited:sender-delta-differs" },
                        detail("sender balance delta differs", json!({"resource": res_name(i), "observed": got.to_string(), "expected": expect.to_string()})),
                    );
                    return;
                }
                if observed == Class::Refunded && !base.res[i].fungible {
                    if let Some(v) = &post_s[i].vault {
                        if let Some(missing) = exp_ids[i].iter().find(|id| !nf_vault_contains(post_db, v, id)) {
                            shard.violation("refunded:non-fungible-not-returned", detail("a refunded non-fungible did not come back", json!({"resource": res_name(i), "id": missing.to_string()})));
                            return;
                        }
                    }
                }
            }
        } else if (0..N_RES).any(|i| post_s[i].amount != pre_s[i].amount) {
            shard.violation("failed:sender-balance-changed", detail("the call failed but the sender's balances changed", json!({})));
            return;
        }
        // (4) nothing else moves: bystander untouched, and no vault outside {target's vaults of the
        //     deposited resources, sender's vaults, fee vaults} is written
        if pre_u != post_u {
            shard.violation("third-account-changed", detail("a third account's holdings changed", json!({})));
            return;
        }
        let mut ok_vaults: BTreeSet<NodeId> = base.system_vaults.clone();
        for h in pre_s.iter().chain(post_s.iter()) {
            if let Some(v) = h.vault {
                ok_vaults.insert(v);
            }
        }
        if observed == Class::Deposited {
            for b in &g.buckets {
                if let Some(v) = post_t[b.res].vault {
                    ok_vaults.insert(v);
                }
            }
        }
        if let Some(v) = touched_vaults(receipt).iter().find(|v| !ok_vaults.contains(*v)) {
            let owner = (0..N_RES).find(|i| post_t[*i].vault == Some(*v)).map(|i| format!("target:{}", res_name(i)));
            shard.violation("foreign-vault-written", detail("a vault other than the target's vaults of the deposited resources / the sender's / fee vaults was written", json!({"vault": decode::node_hex(v), "owner": owner})));
            return;
        }
        shard.count("c39:deltas_exact");
        if shard.want_sample() && shard.evaluations % 97 == 0 {
            shard.sample(|| json!({"decision_row": row, "variant": g.variant.name(), "predicted": pred.name(), "observed": observed.name(), "outcome": outcome_class(receipt), "op": op_j(&Op::Deposit(g.clone()))}));
        }
    }
}

/// Runs a whole history on a fresh target. Returns the number of guarded deposits executed.
pub fn run_history(ledger: &mut Ledger, base: &mut Base, shard: &mut Shard, kind: TargetKind, ops: &[Op]) {
    let t = base.new_target(ledger, shard, kind);
    let mut model = Model::new();
    let mut runner = Runner { ledger, base };
    for (i, op) in ops.iter().enumerate() {
        let hist = || json!({"target_kind": if kind == TargetKind::Virtual { "virtual" } else { "advanced" }, "ops": ops[..=i].iter().map(op_j).collect::<Vec<_>>()});
        runner.run_op(shard, &t, &mut model, op, &hist);
    }
}

/// Table group: the set-up runs once on a fresh target; every deposit then runs on exactly that
/// state (ledger snapshot restored before each).
pub fn run_group(ledger: &mut Ledger, base: &mut Base, shard: &mut Shard, kind: TargetKind, setup: &[Op], deposits: &[GDep]) {
    let t = base.new_target(ledger, shard, kind);
    let mut model = Model::new();
    for (i, op) in setup.iter().enumerate() {
        let hist = || json!({"target_kind": "virtual", "ops": setup[..=i].iter().map(op_j).collect::<Vec<_>>()});
        Runner { ledger: &mut *ledger, base: &mut *base }.run_op(shard, &t, &mut model, op, &hist);
    }
    let snap = ledger.snapshot();
    for (j, g) in deposits.iter().enumerate() {
        if j > 0 {
            ledger.restore(&snap);
        }
        let op = Op::Deposit(g.clone());
        let hist = || json!({"target_kind": if kind == TargetKind::Virtual { "virtual" } else { "advanced" }, "ops": setup.iter().chain(std::iter::once(&op)).map(op_j).collect::<Vec<_>>()});
        Runner { ledger: &mut *ledger, base: &mut *base }.run_op(shard, &t, &mut model, &op, &hist);
        shard.count("c39:table_cases");
    }
}

// ---------------------------------------------------------------------------------------------
// Check driver
// ---------------------------------------------------------------------------------------------
pub fn spec(tier: Tier) -> Spec {
    let s = Spec::new(
        "C39",
        "exploration",
        "histories on one target account = owner configuration transactions (default rule / preferences / authorized depositors set, overwritten and removed; owner deposits and withdrawals shaping the vault history) followed by guarded deposits signed by a third party. Phase 1 enumerates the finite decision table exhaustively on fresh accounts (rule x preference history x vault history incl. never-seen / 0-balance vault / XRD with and without vault x depositor list x named badge x proof presence/placement x 4 methods; batches of 0-4 buckets over 4 resources incl. duplicates, empty buckets, partially offending, ENTIRE_WORKTOP); phase 2 runs long random histories on fresh and aged accounts with background ledger traffic. A case = one guarded deposit whose outcome class and per-vault deltas were compared with the reference decision table; distinct = distinct (decision row, method, rule, per-bucket (resource, preference, vault, empty), badge/list/proofs/placement, batch mode) signatures.",
    )
    .assume("'resources the account already holds' is read as 'the account has a vault for the resource' (a vault with balance 0 counts), as DESIGN §4 C39 states")
    .assume("'names a badge on the list' is exact membership of the named ResourceOrNonFungible (naming one id of a listed resource, or the resource of a listed id, is not on the list); 'proves it' = a proof satisfying require(badge) is in the caller's auth zone when the method is called (explicit proof, or the transaction signature for a signature badge)")
    .assume("protocol version = latest (simulator default); account configuration is tracked by the model from successful owner transactions, vault existence and balances are read from raw substates before/after each transaction")
    .explain("oracle: decision table from the property text (preference > default rule; AllowExisting = XRD or vault exists; listed+proven badge overrides; refused+listed+unproven fails; otherwise refund variants return every bucket and abort variants fail) and exact pre/post vault deltas of target, sender and a bystander account plus the set of vault nodes written by the transaction")
    .floor("c39:guarded_deposits", tier.pick(4_000, 60_000))
    .floor("c39:table_cases", tier.pick(2_500, c39_gen::table().iter().map(|c| c.deposits.len() as u64).sum()))
    .floor("c39:random_history_deposits", tier.pick(300, 12_000))
    .floor("c39:deposits_on_aged_account_50plus_ops", tier.pick(40, 3_000))
    .floor("c39:deltas_exact", tier.pick(4_000, 60_000));
    let mut s = s;
    for row in ["all-allowed", "no-buckets", "refused+no-badge", "refused+unlisted-badge", "refused+listed-badge-proven", "refused+listed-badge-not-proven"] {
        for v in Variant::ALL {
            if row == "no-buckets" && !v.is_batch() {
                continue;
            }
            s = s.floor(&format!("c39:row:{row}:{}", v.name()), if row == "no-buckets" { 5 } else { tier.pick(30, 1000) });
        }
    }
    for c in [
        "c39:observed:all-deposited",
        "c39:observed:all-refunded",
        "c39:observed:call-failed",
        "c39:batch_partially_offending",
        "c39:batch_with_duplicate_resources",
        "c39:with_empty_bucket",
        "c39:batch_entire_worktop",
        "c39:bucket:AllowExisting:none:xrd-no-vault",
        "c39:bucket:AllowExisting:none:xrd-vault",
        "c39:bucket:AllowExisting:none:never-seen",
        "c39:bucket:AllowExisting:none:vault-zero-balance",
        "c39:bucket:AllowExisting:none:vault-positive",
        "c39:bucket:Reject:allowed:never-seen",
        "c39:bucket:Accept:disallowed:vault-positive",
        "c39:named_badge:listed-resource",
        "c39:named_badge:listed-non-fungible",
        "c39:named_badge:listed-signature",
        "c39:named_badge:unlisted-resource",
        "c39:named_badge:unlisted-non-fungible",
        "c39:proof_placement:dropped",
        "c39:proof_placement:after",
        "c39:step:remove_resource_preference",
        "c39:step:remove_authorized_depositor",
    ] {
        s = s.floor(c, tier.pick(20, 200));
    }
    s
}

pub fn run(args: &Args) -> i32 {
    let mut report = Report::new(args, spec(args.tier));
    if let Some(path) = &args.replay {
        return replay(path, report);
    }
    let threads = args.threads;
    // ---- phase 1: the finite table, strided over the shards, in a seed-dependent order ----
    let table = c39_gen::table();
    let total = table.len();
    report.extra.insert("table_groups".into(), json!(total));
    report.extra.insert("table_size".into(), json!(table.iter().map(|c| c.deposits.len()).sum::<usize>()));
    let budget1 = Duration::from_secs(budget_secs(args.tier, 30, 480));
    let seed = args.seed;
    report.run_shards(391, threads, budget1, |i, _rng, shard| {
        let mut ledger = Ledger::new();
        ledger.walk_every = 0;
        let mut base = Base::new(&mut ledger, shard);
        let mut order: Vec<usize> = (0..total).filter(|k| k % threads == i).collect();
        Rng::from_parts(seed, 3911, i as u64).shuffle(&mut order);
        for k in order {
            if shard.time_up() {
                shard.count("c39:table_truncated_by_time");
                break;
            }
            let (kind, setup, deposits) = c39_gen::instantiate(&table[k], &mut base);
            run_group(&mut ledger, &mut base, shard, kind, &setup, &deposits);
        }
        rv_ledger::walkers::walk_all(shard, &ledger, "end of C39 table phase");
    });
    // ---- phase 2: random histories on fresh and aged accounts, with background traffic ----
    let budget2 = Duration::from_secs(budget_secs(args.tier, 20, 360));
    let max_deposits = scaled(args, args.tier.pick(4_000, 400_000));
    report.run_shards(392, threads, budget2, |i, rng, shard| {
        let mut world = World::new(shard, rng, 4);
        world.ledger.walk_every = args.tier.pick(0, 3000);
        // age the ledger a little before the scenario accounts are created
        for _ in 0..rng.range(0, 60) {
            world.step(shard, rng);
        }
        let mut base = Base::new(&mut world.ledger, shard);
        let mut done = 0u64;
        let mut h = 0u64;
        while done < max_deposits && !shard.time_up() {
            h += 1;
            let kind = if rng.chance(1, 3) { TargetKind::Advanced } else { TargetKind::Virtual };
            let len = if rng.chance(1, 4) { rng.range(100, 300) } else { rng.range(3, 40) } as usize;
            let t = base.new_target(&mut world.ledger, shard, kind);
            let mut model = Model::new();
            let mut ops: Vec<Op> = vec![];
            for _ in 0..len {
                if shard.time_up() {
                    break;
                }
                if rng.chance(1, 3) {
                    world.step(shard, rng);
                    shard.count("c39:background_transactions");
                }
                let op = {
                    let db = world.ledger.db();
                    let has_vault: Vec<bool> = base.res.iter().map(|r| account_vault(db, t.account, r.addr).is_some()).collect();
                    c39_gen::random_op(rng, &mut base, &model, &has_vault)
                };
                ops.push(op.clone());
                let is_dep = matches!(op, Op::Deposit(_));
                let hist = || json!({"target_kind": if kind == TargetKind::Virtual { "virtual" } else { "advanced" }, "ops": ops.iter().map(op_j).collect::<Vec<_>>(), "note": format!("shard {i} history {h}; background traffic of the original run is not part of the replay")});
                let mut runner = Runner { ledger: &mut world.ledger, base: &mut base };
                runner.run_op(shard, &t, &mut model, &op, &hist);
                if is_dep {
                    done += 1;
                    shard.count("c39:random_history_deposits");
                    if ops.len() > 50 {
                        shard.count("c39:deposits_on_aged_account_50plus_ops");
                    }
                }
            }
            shard.count("c39:random_histories");
            shard.max("c39:history_length", ops.len() as u64);
        }
        rv_ledger::walkers::walk_all(shard, &world.ledger, "end of C39 random phase");
    });
    report.finish()
}

fn replay(path: &std::path::Path, mut report: Report) -> i32 {
    let doc: Value = serde_json::from_str(&std::fs::read_to_string(path).expect("replay file")).expect("json");
    let rp = &doc["detail"]["replay"];
    let Some(ops) = rp["ops"].as_array() else {
        println!("replay file has no detail.replay.ops");
        return 2;
    };
    let ops: Vec<Op> = ops.iter().map(op_p).collect();
    let kind = if rp["target_kind"].as_str() == Some("advanced") { TargetKind::Advanced } else { TargetKind::Virtual };
    let mut shard = Shard::new(0, "C39", report.args.tier, std::time::Instant::now() + Duration::from_secs(600));
    let mut ledger = Ledger::new();
    let mut base = Base::new(&mut ledger, &mut shard);
    run_history(&mut ledger, &mut base, &mut shard, kind, &ops);
    println!("replayed {} op(s): {} violation(s)", ops.len(), shard.violations.len());
    for v in &shard.violations {
        println!("  {} {} predicted={} outcome={}", v.prop, v.signature, v.detail["predicted"], v.detail["outcome"]);
    }
    shard.nontrivial(&1);
    shard.nontrivial(&2);
    report.merge(shard);
    report.spec.floors.clear();
    report.finish()
}
