//! C39 workload generators: the exhaustive decision table (phase 1) and random histories (phase 2).
use crate::c39::*;
use rv_common::Rng;

/// A table case: a short history template on a fresh virtual account. Non-fungible ids of the
/// depositable resources are placeholders (0) that `instantiate` replaces by fresh ids.
#[derive(Clone, Debug)]
pub struct Case {
    /// owner set-up transactions (executed once)
    pub setup: Vec<Op>,
    /// guarded deposits, each executed on the state right after the set-up (ledger snapshot)
    pub deposits: Vec<GDep>,
}

const E18: u64 = 1_000_000_000_000_000_000;

fn default_qty(res: usize) -> u64 {
    match res {
        R_XRD => 2 * E18,
        R_FA => 3 * E18,
        R_FB => 7,
        R_FC => 250,
        _ => 0,
    }
}

fn bucket(res: usize, empty: bool) -> BucketSpec {
    let fungible = matches!(res, R_XRD | R_FA | R_FB | R_FC | R_BF | R_BO);
    if empty {
        BucketSpec { res, qty: 0, ids: vec![] }
    } else if fungible {
        BucketSpec { res, qty: default_qty(res), ids: vec![] }
    } else {
        BucketSpec { res, qty: 0, ids: vec![0, 0] }
    }
}

fn rule_steps(mode: usize) -> Vec<Step> {
    match mode {
        0 => vec![],
        1 => vec![Step::SetRule(Rule::Reject), Step::SetRule(Rule::Accept)],
        2 => vec![Step::SetRule(Rule::Reject)],
        _ => vec![Step::SetRule(Rule::AllowExisting)],
    }
}

/// (resource, first set-up steps, second set-up transaction)
fn hist_steps(h: usize) -> (usize, Vec<Step>, Vec<Step>) {
    match h {
        0 => (R_XRD, vec![], vec![]),
        1 => (R_XRD, vec![Step::OwnerDeposit { res: R_XRD, qty: E18, ids: vec![] }], vec![]),
        2 => (R_FA, vec![], vec![]),
        3 => (R_FA, vec![Step::OwnerDeposit { res: R_FA, qty: 0, ids: vec![] }], vec![]),
        4 => (R_FB, vec![Step::OwnerDeposit { res: R_FB, qty: 5, ids: vec![] }], vec![Step::OwnerWithdrawAll(R_FB)]),
        5 => (R_FC, vec![Step::OwnerDeposit { res: R_FC, qty: 500, ids: vec![] }], vec![]),
        6 => (R_NA, vec![], vec![]),
        7 => (R_NB, vec![Step::OwnerDeposit { res: R_NB, qty: 0, ids: vec![0, 0] }], vec![Step::OwnerWithdrawAll(R_NB)]),
        8 => (R_NA, vec![Step::OwnerDeposit { res: R_NA, qty: 0, ids: vec![0] }], vec![]),
        _ => (R_NB, vec![Step::OwnerDeposit { res: R_NB, qty: 0, ids: vec![] }], vec![]),
    }
}
const N_HIST: usize = 10;

fn pref_steps(p: usize, res: usize) -> Vec<Step> {
    let other = if res == R_FA { R_FB } else { R_FA };
    match p {
        0 => vec![],
        1 => vec![Step::SetPref(res, true)],
        2 => vec![Step::SetPref(res, false)],
        3 => vec![Step::SetPref(res, true), Step::RemovePref(res)],
        4 => vec![Step::SetPref(res, false), Step::SetPref(res, true)],
        5 => vec![Step::SetPref(res, true), Step::SetPref(res, false)],
        6 => vec![Step::SetPref(other, false)],
        _ => vec![Step::SetPref(other, true), Step::RemovePref(res)],
    }
}
const N_PREF: usize = 8;

struct BadgeCombo {
    list: Vec<Step>,
    named: Option<Badge>,
    proofs: Vec<ProofSpec>,
    placement: Placement,
}

fn pf(res: usize, ids: &[u64]) -> ProofSpec {
    ProofSpec { res, ids: ids.to_vec() }
}

fn badge_lite(k: usize) -> BadgeCombo {
    use Badge::*;
    let bc = |list: Vec<Step>, named: Option<Badge>, proofs: Vec<ProofSpec>, placement: Placement| BadgeCombo { list, named, proofs, placement };
    let b = Placement::Before;
    match k {
        0 => bc(vec![], None, vec![], b),
        1 => bc(vec![Step::AddDep(Res(R_BF))], None, vec![pf(R_BF, &[])], b),
        2 => bc(vec![Step::AddDep(Res(R_BF))], Some(Res(R_BF)), vec![pf(R_BF, &[])], b),
        3 => bc(vec![Step::AddDep(Res(R_BF))], Some(Res(R_BF)), vec![], b),
        4 => bc(vec![Step::AddDep(Res(R_BF))], Some(Res(R_BN)), vec![pf(R_BN, &[1])], b),
        5 => bc(vec![Step::AddDep(Nf(R_BN, 1))], Some(Nf(R_BN, 1)), vec![pf(R_BN, &[1])], b),
        6 => bc(vec![Step::AddDep(Nf(R_BN, 1))], Some(Nf(R_BN, 1)), vec![pf(R_BN, &[2])], b),
        7 => bc(vec![Step::AddDep(Nf(R_BN, 1))], Some(Res(R_BN)), vec![pf(R_BN, &[1])], b),
        8 => bc(vec![Step::AddDep(Res(R_BN))], Some(Nf(R_BN, 1)), vec![pf(R_BN, &[1])], b),
        9 => bc(vec![Step::AddDep(Res(R_BF)), Step::RemoveDep(Res(R_BF))], Some(Res(R_BF)), vec![pf(R_BF, &[])], b),
        10 => bc(vec![Step::AddDep(Sig(0))], Some(Sig(0)), vec![], b),
        11 => bc(vec![Step::AddDep(Res(R_BO))], Some(Res(R_BO)), vec![], b),
        12 => bc(vec![Step::AddDep(Res(R_BF))], Some(Res(R_BF)), vec![pf(R_BF, &[])], Placement::Dropped),
        _ => bc(vec![Step::AddDep(Res(R_BF))], Some(Res(R_BF)), vec![pf(R_BF, &[])], Placement::After),
    }
}
const N_BADGE_LITE: usize = 14;

fn gdep(variant: Variant, buckets: Vec<BucketSpec>, bc: &BadgeCombo) -> GDep {
    GDep { variant, buckets, entire_worktop: false, badge: bc.named.clone(), proofs: bc.proofs.clone(), placement: bc.placement, owner_signs: false, mint_source: false }
}

const CHUNK: usize = 24;

/// One set-up, many deposits (split into chunks so that the shards stay balanced).
fn assemble(out: &mut Vec<Case>, first: Vec<Step>, second: Vec<Step>, deposits: Vec<GDep>) {
    let mut setup = vec![];
    if !first.is_empty() {
        setup.push(Op::Setup(first));
    }
    if !second.is_empty() {
        setup.push(Op::Setup(second));
    }
    for c in deposits.chunks(CHUNK) {
        out.push(Case { setup: setup.clone(), deposits: c.to_vec() });
    }
}

pub fn table() -> Vec<Case> {
    let mut out = vec![];
    // ---- A: rule x vault history x preference history x method x representative badge situations
    for rule in 0..4 {
        for h in 0..N_HIST {
            for p in 0..N_PREF {
                for k in 0..N_BADGE_LITE {
                    let (res, hist1, hist2) = hist_steps(h);
                    let bc = badge_lite(k);
                    let mut first = rule_steps(rule);
                    first.extend(pref_steps(p, res));
                    first.extend(bc.list.clone());
                    first.extend(hist1);
                    let deps = Variant::ALL.iter().map(|v| gdep(*v, vec![bucket(res, false)], &bc)).collect();
                    assemble(&mut out, first, hist2, deps);
                }
            }
        }
    }
    // ---- B: full depositor-list x named badge x proofs product on representative resource states
    use Badge::*;
    let lists: Vec<Vec<Badge>> = vec![
        vec![],
        vec![Res(R_BF)],
        vec![Nf(R_BN, 1)],
        vec![Res(R_BN)],
        vec![Sig(0)],
        vec![Sig(1)],
        vec![Res(R_BF), Nf(R_BN, 2), Res(R_BO)],
        vec![Res(R_FA)],
    ];
    let named: Vec<Option<Badge>> = vec![None, Some(Res(R_BF)), Some(Res(R_BN)), Some(Nf(R_BN, 1)), Some(Nf(R_BN, 2)), Some(Sig(0)), Some(Sig(1)), Some(Res(R_BO)), Some(Res(R_FA))];
    let proofs: Vec<(Vec<ProofSpec>, Placement)> = vec![
        (vec![], Placement::Before),
        (vec![pf(R_BF, &[])], Placement::Before),
        (vec![pf(R_BN, &[1])], Placement::Before),
        (vec![pf(R_BN, &[2])], Placement::Before),
        (vec![pf(R_BN, &[1, 2])], Placement::Before),
        (vec![pf(R_FA, &[])], Placement::Before),
        (vec![pf(R_BF, &[]), pf(R_BN, &[1])], Placement::Before),
        (vec![pf(R_BF, &[]), pf(R_BN, &[1, 2]), pf(R_FA, &[])], Placement::Dropped),
    ];
    // (rule steps, resource, preference steps)
    let states: Vec<(Vec<Step>, usize)> = vec![
        (vec![Step::SetRule(Rule::Reject)], R_FA),
        (vec![Step::SetPref(R_FA, false)], R_FA),
        (vec![Step::SetRule(Rule::AllowExisting)], R_NA),
        (vec![Step::SetRule(Rule::Reject)], R_XRD),
        (vec![Step::SetRule(Rule::AllowExisting)], R_XRD),
        (vec![Step::SetRule(Rule::Reject), Step::SetPref(R_FA, true)], R_FA),
    ];
    for (st, res) in &states {
        for l in &lists {
            let mut first = st.clone();
            first.extend(l.iter().map(|b| Step::AddDep(b.clone())));
            let mut deps = vec![];
            for n in &named {
                for (ps, pl) in &proofs {
                    for v in Variant::ALL {
                        let bc = BadgeCombo { list: vec![], named: n.clone(), proofs: ps.clone(), placement: *pl };
                        deps.push(gdep(v, vec![bucket(*res, false)], &bc));
                    }
                }
            }
            assemble(&mut out, first, vec![], deps);
        }
    }
    // ---- C: batch compositions over {XRD, FA, FB, NA}
    let configs: Vec<(Vec<Step>, Vec<Step>)> = vec![
        (vec![Step::SetPref(R_FB, false)], vec![]),
        (vec![Step::SetRule(Rule::Reject), Step::SetPref(R_FA, true), Step::SetPref(R_NA, true)], vec![]),
        (vec![Step::SetRule(Rule::AllowExisting), Step::OwnerDeposit { res: R_FB, qty: 3, ids: vec![] }], vec![Step::OwnerWithdrawAll(R_FB)]),
        (vec![Step::SetRule(Rule::AllowExisting), Step::SetPref(R_XRD, false), Step::OwnerDeposit { res: R_NA, qty: 0, ids: vec![0] }], vec![]),
        (vec![Step::SetRule(Rule::Reject)], vec![]),
        (vec![], vec![]),
    ];
    let pool = [R_XRD, R_FA, R_FB, R_NA];
    let mut seqs: Vec<Vec<usize>> = vec![vec![]];
    let mut frontier: Vec<Vec<usize>> = vec![vec![]];
    for _ in 0..4 {
        let mut next = vec![];
        for s in &frontier {
            for r in pool {
                let mut t = s.clone();
                t.push(r);
                next.push(t);
            }
        }
        seqs.extend(next.iter().cloned());
        frontier = next;
    }
    let batch_badges = [0usize, 2, 3, 4];
    for (ci, (c1, c2)) in configs.iter().enumerate() {
        for k in batch_badges {
            let bc = badge_lite(k);
            let mut first = c1.clone();
            first.extend(bc.list.clone());
            let mut deps = vec![];
            for (si, seq) in seqs.iter().enumerate() {
                for v in [Variant::BatchRefund, Variant::BatchAbort] {
                    let buckets: Vec<BucketSpec> = seq.iter().enumerate().map(|(j, r)| bucket(*r, (si * 7 + j * 3 + ci) % 5 == 0)).collect();
                    let mut g = gdep(v, buckets, &bc);
                    let distinct = seq.iter().collect::<std::collections::BTreeSet<_>>().len() == seq.len();
                    let no_empty = g.buckets.iter().all(|b| b.qty > 0 || !b.ids.is_empty());
                    if distinct && no_empty && (si + k) % 2 == 1 {
                        g.entire_worktop = true;
                    }
                    g.mint_source = (si + ci) % 3 == 0;
                    deps.push(g);
                }
            }
            assemble(&mut out, first, c2.clone(), deps);
        }
    }
    out
}

fn fill_ids(ids: &mut Vec<u64>, base: &mut Base) {
    if ids.iter().any(|i| *i == 0) {
        *ids = base.fresh_ids(ids.len());
    }
}

pub fn instantiate(case: &Case, base: &mut Base) -> (TargetKind, Vec<Op>, Vec<GDep>) {
    let mut setup = case.setup.clone();
    for op in setup.iter_mut() {
        if let Op::Setup(steps) = op {
            for s in steps.iter_mut() {
                if let Step::OwnerDeposit { ids, .. } = s {
                    fill_ids(ids, base);
                }
            }
        }
    }
    let mut deposits = case.deposits.clone();
    for g in deposits.iter_mut() {
        for b in g.buckets.iter_mut() {
            fill_ids(&mut b.ids, base);
        }
    }
    (TargetKind::Virtual, setup, deposits)
}

// ---------------------------------------------------------------------------------------------
// Random histories
// ---------------------------------------------------------------------------------------------
fn random_badge(rng: &mut Rng, model: &Model, prefer_listed: bool) -> Badge {
    if prefer_listed && !model.deps.is_empty() {
        let v: Vec<&Badge> = model.deps.iter().collect();
        return (*rng.pick(&v)).clone();
    }
    match rng.below(12) {
        0 | 1 => Badge::Res(R_BF),
        2 => Badge::Res(R_BN),
        3 | 4 => Badge::Nf(R_BN, rng.range(1, 4)),
        5 => Badge::Sig(0),
        6 => Badge::Sig(1),
        7 => Badge::Sig(2),
        8 => Badge::Res(R_BO),
        9 => Badge::Res(R_FA),
        10 => Badge::Nf(R_NA, 1),
        _ => Badge::Nf(R_BN, rng.range(1, 5)),
    }
}

fn random_res(rng: &mut Rng) -> usize {
    match rng.below(10) {
        0 | 1 => R_XRD,
        2 | 3 => R_FA,
        4 => R_FB,
        5 => R_FC,
        6 | 7 => R_NA,
        _ => R_NB,
    }
}

fn is_nf(res: usize) -> bool {
    matches!(res, R_NA | R_NB | R_BN)
}

fn random_qty(rng: &mut Rng, res: usize) -> u64 {
    match res {
        R_XRD => match rng.below(4) {
            0 => 1,
            1 => E18,
            _ => rng.range(1, 3 * E18),
        },
        R_FA => match rng.below(4) {
            0 => 1,
            1 => E18,
            _ => rng.range(1, 5 * E18),
        },
        R_FB => rng.range(1, 20),
        _ => rng.range(1, 2000),
    }
}

fn random_step(rng: &mut Rng, base: &mut Base, model: &Model, withdrawn: &mut bool) -> Step {
    match rng.below(100) {
        0..=19 => Step::SetRule(*rng.pick(&[Rule::Accept, Rule::Reject, Rule::AllowExisting, Rule::AllowExisting])),
        20..=44 => Step::SetPref(if rng.chance(1, 12) { R_BF } else { random_res(rng) }, rng.bool()),
        45..=56 => {
            let with: Vec<usize> = model.prefs.keys().cloned().collect();
            Step::RemovePref(if !with.is_empty() && rng.chance(3, 4) { *rng.pick(&with) } else { random_res(rng) })
        }
        57..=71 => Step::AddDep(random_badge(rng, model, false)),
        72..=81 => {
            let listed = rng.chance(3, 4);
            Step::RemoveDep(random_badge(rng, model, listed))
        }
        82..=91 => {
            let res = random_res(rng);
            if is_nf(res) {
                let n = rng.below(3) as usize;
                Step::OwnerDeposit { res, qty: 0, ids: base.fresh_ids(n) }
            } else {
                Step::OwnerDeposit { res, qty: if rng.chance(1, 4) { 0 } else { random_qty(rng, res) }, ids: vec![] }
            }
        }
        _ => {
            if *withdrawn {
                Step::SetRule(Rule::AllowExisting)
            } else {
                *withdrawn = true;
                Step::OwnerWithdrawAll(random_res(rng))
            }
        }
    }
}

fn proof_for(rng: &mut Rng, b: &Badge) -> Option<ProofSpec> {
    match b {
        Badge::Res(r) if *r == R_BF || *r == R_FA => Some(ProofSpec { res: *r, ids: vec![] }),
        Badge::Res(r) if *r == R_BN => Some(ProofSpec { res: R_BN, ids: vec![rng.range(1, 4)] }),
        Badge::Nf(r, id) if *r == R_BN && (1..=4).contains(id) => Some(ProofSpec { res: R_BN, ids: vec![*id] }),
        _ => None,
    }
}

fn random_deposit(rng: &mut Rng, base: &mut Base, model: &Model) -> GDep {
    let variant = *rng.pick(&Variant::ALL);
    let n = if variant.is_batch() {
        match rng.below(10) {
            0 => 0,
            1 | 2 => 1,
            3..=5 => 2,
            6 | 7 => 3,
            _ => 4,
        }
    } else {
        1
    };
    let mut buckets: Vec<BucketSpec> = vec![];
    for _ in 0..n {
        let res = if !buckets.is_empty() && rng.chance(1, 5) { rng.pick(&buckets).res } else { random_res(rng) };
        let empty = rng.chance(1, 8);
        buckets.push(if is_nf(res) {
            let k = if empty { 0 } else { rng.range(1, 3) as usize };
            BucketSpec { res, qty: 0, ids: base.fresh_ids(k) }
        } else {
            BucketSpec { res, qty: if empty { 0 } else { random_qty(rng, res) }, ids: vec![] }
        });
    }
    let prefer_listed = rng.chance(1, 2);
    let badge = if rng.chance(35, 100) { None } else { Some(random_badge(rng, model, prefer_listed)) };
    let mut proofs = vec![];
    if let Some(b) = &badge {
        if rng.chance(6, 10) {
            if let Some(p) = proof_for(rng, b) {
                proofs.push(p);
            }
        }
    }
    for _ in 0..rng.below(3) {
        if rng.chance(1, 3) {
            proofs.push(match rng.below(3) {
                0 => ProofSpec { res: R_BF, ids: vec![] },
                1 => ProofSpec { res: R_FA, ids: vec![] },
                _ => {
                    let mut ids: Vec<u64> = (1..=4).filter(|_| rng.bool()).collect();
                    if ids.is_empty() {
                        ids.push(rng.range(1, 4));
                    }
                    ProofSpec { res: R_BN, ids }
                }
            });
        }
    }
    let placement = match rng.below(20) {
        0..=14 => Placement::Before,
        15..=17 => Placement::Dropped,
        _ => Placement::After,
    };
    let distinct = buckets.iter().map(|b: &BucketSpec| b.res).collect::<std::collections::BTreeSet<_>>().len() == buckets.len();
    let no_empty = buckets.iter().all(|b| b.qty > 0 || !b.ids.is_empty());
    let entire_worktop = variant.is_batch() && distinct && no_empty && rng.chance(3, 10);
    GDep { variant, buckets, entire_worktop, badge, proofs, placement, owner_signs: rng.chance(1, 10), mint_source: rng.chance(1, 5) }
}

pub fn random_op(rng: &mut Rng, base: &mut Base, model: &Model, _has_vault: &[bool]) -> Op {
    if rng.chance(45, 100) {
        let mut withdrawn = false;
        let n = rng.range(1, 3);
        Op::Setup((0..n).map(|_| random_step(rng, base, model, &mut withdrawn)).collect())
    } else {
        Op::Deposit(random_deposit(rng, base, model))
    }
}
