//! Account blueprint monitors. C39: account deposit rules are enforced exactly.
mod c39;
mod c39_gen;

fn main() {
    let args = rv_common::parse_args();
    let code = match args.prop.as_str() {
        "C39" => c39::run(&args),
        other => {
            eprintln!("rv-account: no check named {other}");
            2
        }
    };
    std::process::exit(code);
}
