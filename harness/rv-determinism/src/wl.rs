//! Extra workload on top of `rv_ledger::actions::World` for the determinism check: generated WAT
//! packages (loops, recursion, traps, memory growth, host calls that write logs), wide batches
//! that touch many vaults / resources at once, a three-resource pool, rejected transactions and
//! consensus round changes built here so that they can be re-executed before being committed.
use rv_common::*;
use rv_ledger::actions::{amount, Nfd, World};
use rv_ledger::prelude::*;

pub type Tx = (&'static str, TransactionManifestV1, Vec<NonFungibleGlobalId>);

const UNIT_RETURN: &str = r#"
    (i32.const 0) (i32.const 92) (i32.store8)
    (i32.const 1) (i32.const 33) (i32.store8)
    (i32.const 2) (i32.const 0) (i32.store8)
    (i64.const 3)
"#;

fn wat_loop(n: u64) -> String {
    format!(
        r#"(module
  (func $Test_f (param $0 i64) (result i64)
    (local $i i32)
    (loop $loop
      local.get $i i32.const 1 i32.add local.set $i
      local.get $i i32.const {n} i32.lt_s br_if $loop)
    {UNIT_RETURN})
  (memory $0 1)
  (export "memory" (memory $0))
  (export "Test_f" (func $Test_f)))"#
    )
}

fn wat_recursion(n: u64) -> String {
    format!(
        r#"(module
  (func $f (param $0 i32) (result i32)
    (if (i32.lt_s (local.get $0) (i32.const 2)) (then (return (i32.const 1))))
    (return (i32.add (call $f (i32.sub (local.get $0) (i32.const 1))) (local.get $0))))
  (func $Test_f (param $0 i64) (result i64)
    (drop (call $f (i32.const {n})))
    {UNIT_RETURN})
  (memory $0 1)
  (export "memory" (memory $0))
  (export "Test_f" (func $Test_f)))"#
    )
}

fn wat_trap() -> String {
    r#"(module
  (func $Test_f (param $0 i64) (result i64)
    unreachable)
  (memory $0 1)
  (export "memory" (memory $0))
  (export "Test_f" (func $Test_f)))"#
        .to_string()
}

fn wat_memgrow(pages: u64) -> String {
    format!(
        r#"(module
  (func $Test_f (param $0 i64) (result i64)
    (drop (memory.grow (i32.const {pages})))
    (i32.store (i32.const 60000) (i32.const 7))
    {UNIT_RETURN})
  (memory $0 1)
  (export "memory" (memory $0))
  (export "Test_f" (func $Test_f)))"#
    )
}

/// Calls the `sys_log` host function `n` times (level Info / Warn alternating by data segment),
/// then asks for a RUID and the transaction hash (host calls whose results are dropped).
fn wat_logger(n: u64) -> String {
    format!(
        r#"(module
  (import "env" "sys_log" (func $sys_log (param i32 i32 i32 i32)))
  (import "env" "sys_generate_ruid" (func $ruid (result i64)))
  (import "env" "sys_get_transaction_hash" (func $txhash (result i64)))
  (func $Test_f (param $0 i64) (result i64)
    (local $i i32)
    (loop $loop
      (call $sys_log (i32.const 16) (i32.const 4) (i32.const 32) (i32.const 11))
      (call $sys_log (i32.const 24) (i32.const 4) (i32.const 48) (i32.const 5))
      local.get $i i32.const 1 i32.add local.set $i
      local.get $i i32.const {n} i32.lt_s br_if $loop)
    (drop (call $ruid))
    (drop (call $txhash))
    {UNIT_RETURN})
  (memory $0 1)
  (data (i32.const 16) "\5c\22\02\00")
  (data (i32.const 24) "\5c\22\01\00")
  (data (i32.const 32) "hello world")
  (data (i32.const 48) "again")
  (export "memory" (memory $0))
  (export "Test_f" (func $Test_f)))"#
    )
}

pub struct Pool {
    pub component: ComponentAddress,
    pub unit: ResourceAddress,
    pub resources: Vec<(ResourceAddress, u8)>,
}

#[derive(Default)]
pub struct Extras {
    pub wat_packages: Vec<(&'static str, PackageAddress)>,
    pub pool: Option<Pool>,
}

/// The WAT packages to publish: (kind, wasm code).
pub fn wat_sources() -> Vec<(&'static str, Vec<u8>)> {
    let srcs: Vec<(&'static str, String)> = vec![
        ("wat:loop_10", wat_loop(10)),
        ("wat:loop_20000", wat_loop(20_000)),
        ("wat:recursion_200", wat_recursion(200)),
        ("wat:trap", wat_trap()),
        ("wat:memgrow_3", wat_memgrow(3)),
        ("wat:logger_3", wat_logger(3)),
        ("wat:out_of_cost_units", wat_loop(80_000_000)),
    ];
    srcs.into_iter().map(|(k, w)| (k, wat::parse_str(&w).unwrap_or_else(|e| panic!("harness: WAT {k} does not assemble: {e}")))).collect()
}

pub fn publish_tx(code: Vec<u8>) -> TransactionManifestV1 {
    ManifestBuilder::new()
        .lock_fee_from_faucet()
        .publish_package_advanced(None, code, single_function_package_definition("Test", "f"), MetadataInit::default(), OwnerRole::None)
        .build()
}

pub fn pool_instantiate_tx(resources: &[ResourceAddress]) -> TransactionManifestV1 {
    ManifestBuilder::new()
        .lock_fee_from_faucet()
        .call_function(
            POOL_PACKAGE,
            MULTI_RESOURCE_POOL_BLUEPRINT,
            MULTI_RESOURCE_POOL_INSTANTIATE_IDENT,
            MultiResourcePoolInstantiateManifestInput {
                resource_addresses: resources.iter().cloned().map(Into::into).collect(),
                pool_manager_rule: rule!(allow_all).into(),
                owner_role: OwnerRole::None.into(),
                address_reservation: None,
            },
        )
        .build()
}

fn small_amount(rng: &mut Rng, divisibility: u8) -> Decimal {
    if rng.chance(1, 6) {
        amount(rng, divisibility, None)
    } else {
        let unit = Decimal::from_attos(I192::from(10u128.pow(18 - divisibility as u32)));
        unit.checked_mul(Decimal::from(rng.below(5000) + 1)).unwrap_or(unit)
    }
}

impl Extras {
    /// One transaction of the extra mix (never executes anything itself).
    pub fn gen(&self, world: &mut World, rng: &mut Rng) -> Tx {
        let a = world.actor(rng);
        let b = world.actor(rng);
        let fee = |rng: &mut Rng| -> ManifestBuilder {
            if rng.chance(1, 4) {
                ManifestBuilder::new().lock_fee(a.account, dec!(40))
            } else {
                ManifestBuilder::new().lock_fee_from_faucet()
            }
        };
        let proofs = vec![a.proof()];
        match rng.below(14) {
            0..=2 if !self.wat_packages.is_empty() => {
                let (kind, pkg) = *rng.pick(&self.wat_packages);
                // the endless loop runs until the fee reserve is exhausted: keep the reserve small
                // (0.3 XRD = 6 M cost units, above the 4 M loan) so that it costs ~6 M, not 100 M units
                let mut mb = if kind == "wat:out_of_cost_units" { ManifestBuilder::new().lock_fee(FAUCET, dec!("0.3")) } else { fee(rng) };
                // several calls in one transaction now and then (same module instantiated repeatedly)
                for _ in 0..(if kind == "wat:out_of_cost_units" { 1 } else { rng.range(1, 3) }) {
                    mb = mb.call_function(pkg, "Test", "f", manifest_args!());
                }
                (kind, mb.build(), proofs)
            }
            3 | 4 => {
                // wide batch: every fungible of the world + XRD through one worktop into one account
                let mut mb = fee(rng);
                let mut fs = world.fungibles.clone();
                rng.shuffle(&mut fs);
                for f in fs.iter().take(8) {
                    mb = mb.mint_fungible(f.address, small_amount(rng, f.divisibility));
                }
                mb = mb.withdraw_from_account(a.account, XRD, dec!(2));
                let mb = match rng.below(3) {
                    0 => mb.deposit_entire_worktop(b.account),
                    1 => mb.try_deposit_entire_worktop_or_abort(b.account, None),
                    _ => mb.try_deposit_entire_worktop_or_refund(b.account, None),
                };
                ("wide_fungible_batch", mb.build(), proofs)
            }
            5 => {
                // wide non-fungible batch: ids of several resources minted and deposited together
                let mut mb = fee(rng);
                let n = world.nfs.len();
                for i in 0..n {
                    let t = world.nfs[i].id_type;
                    let address = world.nfs[i].address;
                    if t == NonFungibleIdType::RUID {
                        mb = mb.mint_ruid_non_fungible(address, vec![Nfd { counter: 1, fixed: "b".into(), note: String::new() }, Nfd { counter: 2, fixed: "b".into(), note: "z".into() }]);
                    } else {
                        let mut entries = vec![];
                        for _ in 0..rng.range(1, 4) {
                            let id = world.fresh_id(rng, t);
                            world.nfs[i].known_ids.push(id.clone());
                            entries.push((id, Nfd { counter: 3, fixed: "b".into(), note: "y".into() }));
                        }
                        mb = mb.mint_non_fungible(address, entries);
                    }
                }
                ("wide_non_fungible_batch", mb.deposit_entire_worktop(b.account).build(), proofs)
            }
            6 | 7 if self.pool.is_some() => {
                let p = self.pool.as_ref().unwrap();
                let mut mb = fee(rng);
                let mut rs = p.resources.clone();
                rng.shuffle(&mut rs);
                // sometimes leave a resource out (must fail) or add a foreign one
                let take = if rng.chance(1, 8) { rs.len() - 1 } else { rs.len() };
                for (r, d) in rs.iter().take(take) {
                    mb = mb.mint_fungible(*r, small_amount(rng, *d));
                }
                let mb = mb
                    .call_method(p.component, MULTI_RESOURCE_POOL_CONTRIBUTE_IDENT, manifest_args!(ManifestExpression::EntireWorktop))
                    .try_deposit_entire_worktop_or_abort(a.account, None);
                ("pool_contribute", mb.build(), proofs)
            }
            8 if self.pool.is_some() => {
                let p = self.pool.as_ref().unwrap();
                let amt = small_amount(rng, 18);
                let mb = fee(rng)
                    .withdraw_from_account(a.account, p.unit, amt)
                    .take_all_from_worktop(p.unit, "pool_unit")
                    .with_name_lookup(|builder, lookup| builder.call_method(p.component, MULTI_RESOURCE_POOL_REDEEM_IDENT, MultiResourcePoolRedeemManifestInput { bucket: lookup.bucket("pool_unit") }))
                    .try_deposit_entire_worktop_or_abort(b.account, None);
                ("pool_redeem", mb.build(), proofs)
            }
            9 if self.pool.is_some() => {
                let p = self.pool.as_ref().unwrap();
                let (r, d) = *rng.pick(&p.resources);
                let strategy = match rng.below(3) {
                    0 => WithdrawStrategy::Exact,
                    1 => WithdrawStrategy::Rounded(RoundingMode::ToZero),
                    _ => WithdrawStrategy::Rounded(RoundingMode::AwayFromZero),
                };
                let mb = fee(rng)
                    .call_method(p.component, MULTI_RESOURCE_POOL_PROTECTED_WITHDRAW_IDENT, MultiResourcePoolProtectedWithdrawManifestInput { resource_address: r.into(), amount: small_amount(rng, d), withdraw_strategy: strategy })
                    .try_deposit_entire_worktop_or_abort(b.account, None);
                ("pool_protected_withdraw", mb.build(), proofs)
            }
            10 | 11 => {
                // rejected: nothing pays the fee
                let f = rng.pick(&world.fungibles).clone();
                ("reject_no_fee_lock", ManifestBuilder::new().mint_fungible(f.address, dec!(1)).deposit_entire_worktop(b.account).build(), proofs)
            }
            _ => {
                // rejected: fee lock on an account whose owner did not sign (fails before the loan is repaid)
                let f = rng.pick(&world.fungibles).clone();
                ("reject_unauthorized_fee_lock", ManifestBuilder::new().lock_fee(b.account, dec!(10)).mint_fungible(f.address, dec!(1)).deposit_entire_worktop(b.account).build(), vec![])
            }
        }
    }
}

/// The system manifest of a consensus round change (same shape as `Ledger::next_round`).
pub fn round_change(world: &mut World, rng: &mut Rng) -> (TransactionManifestSystemV1Alias, String) {
    world.round += if rng.chance(1, 5) { rng.range(2, 6) } else { 1 };
    world.time_ms += match rng.below(4) {
        0 => 0,
        1 => 61_000,
        _ => rng.range(1, 5_000) as i64,
    };
    let (round, t) = (world.round, world.time_ms);
    let manifest = ManifestBuilder::new_system_v1()
        .call_method(
            CONSENSUS_MANAGER,
            CONSENSUS_MANAGER_NEXT_ROUND_IDENT,
            ConsensusManagerNextRoundInput { round: Round::of(round), proposer_timestamp_ms: t, leader_proposal_history: LeaderProposalHistory { gap_round_leaders: vec![], current_leader: 0, is_fallback: false } },
        )
        .build();
    (manifest, format!("SYSTEM next_round(round={round}, ts_ms={t}, gaps=[], leader=0)"))
}

pub type TransactionManifestSystemV1Alias = SystemTransactionManifestV1;
