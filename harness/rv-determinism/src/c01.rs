//! C01: transaction execution is deterministic.
//!
//! For every sampled transaction of a seeded ledger history the *same executable* is executed
//! against the *same database* several times without committing - under every combination of the
//! diagnostic-only execution settings, with a cold and with a warm WASM code cache, on many OS
//! threads at once, finally for real (committed) - and the whole history is replayed by a second
//! process. The oracle is byte equality of a canonical digest built from exactly the parts of the
//! receipt the property names (the diagnostic outputs themselves are excluded).
use crate::wl::{self, Extras, Pool};
use radix_engine::transaction::execute_transaction;
use radix_engine::vm::DefaultVmModules;
use rv_common::*;
use rv_ledger::actions::World;
use rv_ledger::decode::Db;
use rv_ledger::prelude::*;
use rv_ledger::{describe_manifest, outcome_class};
use serde_json::{json, Value};
use std::io::Write;
use std::panic::AssertUnwindSafe;
use std::sync::{mpsc, Arc, Barrier};
use std::time::Duration;

pub const PHASE: u64 = 0xC01;
pub const PARTS: [&str; 10] = [
    "kind",
    "outcome",
    "state_updates",
    "application_events",
    "application_logs",
    "fee_summary",
    "fee_source",
    "fee_destination",
    "new_entities",
    "performed_nullifications",
];

// ------------------------------------------------------------------------------------------
// canonical digest
// ------------------------------------------------------------------------------------------
fn enc<T: ScryptoEncode + std::fmt::Debug>(v: &T) -> Vec<u8> {
    scrypto_encode(v).unwrap_or_else(|e| format!("UNENCODABLE({e:?}):{v:?}").into_bytes())
}

/// The parts in the order of `PARTS`.
pub fn digest(r: &TransactionReceipt) -> Vec<Vec<u8>> {
    let fee_summary = enc(&r.fee_summary);
    match &r.result {
        TransactionResult::Commit(c) => vec![
            b"commit".to_vec(),
            enc(&c.outcome),
            enc(&c.state_updates),
            enc(&c.application_events),
            enc(&c.application_logs),
            fee_summary,
            enc(&c.fee_source),
            enc(&c.fee_destination),
            enc(&(&c.state_update_summary.new_packages, &c.state_update_summary.new_components, &c.state_update_summary.new_resources, &c.state_update_summary.new_vaults)),
            enc(&c.performed_nullifications),
        ],
        TransactionResult::Reject(x) => vec![b"reject".to_vec(), enc(&x.reason), vec![], vec![], vec![], fee_summary, vec![], vec![], vec![], vec![]],
        TransactionResult::Abort(x) => vec![b"abort".to_vec(), enc(&x.reason), vec![], vec![], vec![], fee_summary, vec![], vec![], vec![], vec![]],
    }
}

fn clip(s: String, n: usize) -> String {
    if s.len() <= n {
        s
    } else {
        let mut end = n;
        while !s.is_char_boundary(end) {
            end -= 1;
        }
        format!("{}... [{} bytes]", &s[..end], s.len())
    }
}

/// Human rendering of one digest part of a receipt.
pub fn render(r: &TransactionReceipt, part: usize) -> String {
    let s = match (&r.result, part) {
        (TransactionResult::Commit(_), 0) => "commit".to_string(),
        (TransactionResult::Reject(_), 0) => "reject".to_string(),
        (TransactionResult::Abort(_), 0) => "abort".to_string(),
        (_, 5) => format!("{:?}", r.fee_summary),
        (TransactionResult::Commit(c), 1) => format!("{:?}", c.outcome),
        (TransactionResult::Reject(x), 1) => format!("{:?}", x.reason),
        (TransactionResult::Abort(x), 1) => format!("{:?}", x.reason),
        (TransactionResult::Commit(c), 2) => format!("{:?}", c.state_updates),
        (TransactionResult::Commit(c), 3) => format!("{:?}", c.application_events),
        (TransactionResult::Commit(c), 4) => format!("{:?}", c.application_logs),
        (TransactionResult::Commit(c), 6) => format!("{:?}", c.fee_source),
        (TransactionResult::Commit(c), 7) => format!("{:?}", c.fee_destination),
        (TransactionResult::Commit(c), 8) => format!("{:?}", (&c.state_update_summary.new_packages, &c.state_update_summary.new_components, &c.state_update_summary.new_resources, &c.state_update_summary.new_vaults)),
        (TransactionResult::Commit(c), 9) => format!("{:?}", c.performed_nullifications),
        _ => String::new(),
    };
    clip(s, 6000)
}

fn part_hashes(d: &[Vec<u8>]) -> Vec<String> {
    d.iter().map(|p| hex(&hash(p).0[..8])).collect()
}

fn first_diff(a: &[Vec<u8>], b: &[Vec<u8>]) -> Option<usize> {
    (0..PARTS.len()).find(|&i| a[i] != b[i])
}

fn hex_window(bytes: &[u8], at: usize) -> String {
    let lo = at.saturating_sub(24);
    let hi = (at + 40).min(bytes.len());
    format!("[{}..{}] {}", lo, hi, hex(&bytes[lo..hi]))
}

// ------------------------------------------------------------------------------------------
// diagnostic flags
// ------------------------------------------------------------------------------------------
#[derive(Clone, Copy, PartialEq, Eq, Debug)]
pub struct Flags {
    pub kernel_trace: bool,
    pub cost_breakdown: bool,
    pub execution_trace: Option<usize>,
    pub debug_information: bool,
}

impl Flags {
    /// The reference setting: what `ExecutionConfig::for_test_transaction` uses.
    pub const REF: Flags = Flags { kernel_trace: false, cost_breakdown: true, execution_trace: None, debug_information: false };

    pub fn all() -> Vec<Flags> {
        let mut v = vec![];
        for kernel_trace in [false, true] {
            for cost_breakdown in [false, true] {
                for execution_trace in [None, Some(1), Some(16)] {
                    for debug_information in [false, true] {
                        v.push(Flags { kernel_trace, cost_breakdown, execution_trace, debug_information });
                    }
                }
            }
        }
        v
    }
    pub fn apply(&self, base: &ExecutionConfig) -> ExecutionConfig {
        let mut c = base.clone();
        c.enable_kernel_trace = self.kernel_trace;
        c.enable_cost_breakdown = self.cost_breakdown;
        c.execution_trace = self.execution_trace;
        c.enable_debug_information = self.debug_information;
        c
    }
    pub fn name(&self) -> String {
        format!(
            "kernel_trace={},cost_breakdown={},execution_trace={},debug_information={}",
            self.kernel_trace as u8,
            self.cost_breakdown as u8,
            self.execution_trace.map(|d| d.to_string()).unwrap_or_else(|| "none".into()),
            self.debug_information as u8
        )
    }
    /// The settings in which `self` differs from the reference, each as a single-flag variation.
    pub fn single_flag_variations(&self) -> Vec<(&'static str, Flags)> {
        let r = Flags::REF;
        let mut v = vec![];
        if self.kernel_trace != r.kernel_trace {
            v.push(("enable_kernel_trace", Flags { kernel_trace: self.kernel_trace, ..r }));
        }
        if self.cost_breakdown != r.cost_breakdown {
            v.push(("enable_cost_breakdown", Flags { cost_breakdown: self.cost_breakdown, ..r }));
        }
        if self.execution_trace != r.execution_trace {
            v.push(("execution_trace", Flags { execution_trace: self.execution_trace, ..r }));
        }
        if self.debug_information != r.debug_information {
            v.push(("enable_debug_information", Flags { debug_information: self.debug_information, ..r }));
        }
        v
    }
}

// ------------------------------------------------------------------------------------------
// stdout handling: the kernel trace prints to stdout
// ------------------------------------------------------------------------------------------
extern "C" {
    fn dup(fd: i32) -> i32;
    fn dup2(old: i32, new: i32) -> i32;
}

pub struct StdoutGuard {
    saved: i32,
}
impl StdoutGuard {
    /// Points fd 1 at /dev/null, remembering the real stdout.
    pub fn silence() -> StdoutGuard {
        use std::os::fd::AsRawFd;
        let _ = std::io::stdout().flush();
        let saved = unsafe { dup(1) };
        if saved >= 0 {
            if let Ok(f) = std::fs::OpenOptions::new().write(true).open("/dev/null") {
                unsafe { dup2(f.as_raw_fd(), 1) };
            }
        }
        StdoutGuard { saved }
    }
    pub fn restore(&self) {
        let _ = std::io::stdout().flush();
        if self.saved >= 0 {
            unsafe { dup2(self.saved, 1) };
        }
    }
}

// ------------------------------------------------------------------------------------------
// executions
// ------------------------------------------------------------------------------------------
type RunResult = Result<TransactionReceipt, PanicInfo>;

fn exec_once(db: &Db, vm: &DefaultVmModules, cfg: &ExecutionConfig, exe: &ExecutableTransaction) -> RunResult {
    catch(AssertUnwindSafe(|| execute_transaction(db, vm, cfg, exe)))
}

#[allow(dead_code)]
fn assert_shareable() {
    fn sync<T: Sync>() {}
    fn send<T: Send>() {}
    sync::<DefaultVmModules>();
    sync::<Db>();
    sync::<ExecutableTransaction>();
    send::<TransactionReceipt>();
}

#[derive(Clone, Copy, PartialEq, Eq, Debug)]
pub enum Mode {
    /// all variants on every transaction
    Parent,
    /// commit only, print the digests (second process)
    Child,
}

#[derive(Clone, Copy, Debug)]
pub struct Plan {
    pub seed: u64,
    pub shard: usize,
    pub history: u64,
    pub steps: u64,
    pub mode: Mode,
    /// how many of the 23 non-reference flag combinations per transaction (23 = all)
    pub flag_variants: usize,
    pub threads: usize,
    /// keep the committed receipts (needed to render a child-process difference)
    pub keep_receipts: bool,
    /// sample only this step (replay); everything else is just committed
    pub only_step: Option<u64>,
    /// the history stops at the soft deadline once this shard has sampled `min_sampled`
    /// transactions (it always stops at the shard's hard deadline)
    pub soft_deadline: std::time::Instant,
    pub min_sampled: u64,
}

pub struct TxRecord {
    pub step: u64,
    pub label: String,
    pub hashes: Vec<String>,
    pub description: String,
    pub receipt: Option<TransactionReceipt>,
}

pub struct Ctx<'a> {
    pub plan: &'a Plan,
    pub warm: Arc<DefaultVmModules>,
    pub pool: Option<WorkerPool>,
    pub vrng: Rng,
    pub log: Vec<TxRecord>,
    pub step: u64,
}

struct Meta<'a> {
    plan: &'a Plan,
    step: u64,
    label: &'a str,
    description: &'a str,
}

fn report_difference(shard: &mut Shard, variant: &str, extra: Value, m: &Meta, reference: &TransactionReceipt, ref_digest: &[Vec<u8>], got: &RunResult) -> bool {
    let base = |part: &str, a: String, b: String, more: Value| {
        json!({
            "seed": m.plan.seed as i64, "shard": m.plan.shard, "history": m.plan.history, "step": m.step, "steps": m.plan.steps,
            "tx_label": m.label, "tx": m.description, "variant": variant, "variant_detail": extra,
            "differing_part": part, "reference_rendering": a, "variant_rendering": b, "bytes": more,
        })
    };
    match got {
        Err(p) => {
            shard.violation(format!("digest-differs:{variant}:panic"), base("panic", render(reference, 1), p.summary(), json!(null)));
            true
        }
        Ok(r) => {
            let d = digest(r);
            match first_diff(ref_digest, &d) {
                None => false,
                Some(i) => {
                    let (a, b) = (&ref_digest[i], &d[i]);
                    let at = a.iter().zip(b.iter()).position(|(x, y)| x != y).unwrap_or(a.len().min(b.len()));
                    let all_parts: Vec<&str> = (0..PARTS.len()).filter(|&k| ref_digest[k] != d[k]).map(|k| PARTS[k]).collect();
                    let more = json!({"first_differing_offset": at, "reference_len": a.len(), "variant_len": b.len(),
                        "reference_window_hex": hex_window(a, at), "variant_window_hex": hex_window(b, at), "all_differing_parts": all_parts});
                    shard.violation(format!("digest-differs:{variant}:{}", PARTS[i]), base(PARTS[i], render(reference, i), render(r, i), more));
                    true
                }
            }
        }
    }
}

// ------------------------------------------------------------------------------------------
// worker threads: all of them execute the same executable against the same shared database and
// code cache at the same time (released together by a barrier, then individually jittered)
// ------------------------------------------------------------------------------------------
pub struct Job {
    db: Arc<Db>,
    vm: Arc<DefaultVmModules>,
    exe: Arc<ExecutableTransaction>,
    cfg: ExecutionConfig,
    jitter: Vec<u8>,
    reps: usize,
    barrier: Arc<Barrier>,
}

pub struct WorkerPool {
    senders: Vec<mpsc::Sender<Job>>,
    results: mpsc::Receiver<(usize, Vec<RunResult>)>,
    handles: Vec<std::thread::JoinHandle<()>>,
}

impl WorkerPool {
    pub fn new(n: usize) -> WorkerPool {
        let (rtx, results) = mpsc::channel();
        let mut senders = vec![];
        let mut handles = vec![];
        for i in 0..n {
            let (tx, rx) = mpsc::channel::<Job>();
            let rtx = rtx.clone();
            senders.push(tx);
            handles.push(
                std::thread::Builder::new()
                    .stack_size(128 << 20)
                    .spawn(move || {
                        while let Ok(job) = rx.recv() {
                            job.barrier.wait();
                            let mut out = vec![];
                            for k in 0..job.reps {
                                jitter(job.jitter[2 * k]);
                                out.push(exec_once(&job.db, &job.vm, &job.cfg, &job.exe));
                                jitter(job.jitter[2 * k + 1]);
                            }
                            drop(job);
                            if rtx.send((i, out)).is_err() {
                                break;
                            }
                        }
                    })
                    .expect("spawn worker"),
            );
        }
        WorkerPool { senders, results, handles }
    }
    pub fn size(&self) -> usize {
        self.senders.len()
    }
    /// One job per worker; returns the results indexed by worker.
    pub fn round(&self, jobs: Vec<Job>) -> Vec<Vec<RunResult>> {
        let n = jobs.len();
        assert!(n <= self.senders.len(), "harness: more jobs than workers");
        for (s, j) in self.senders.iter().zip(jobs) {
            s.send(j).expect("worker alive");
        }
        let mut out: Vec<Vec<RunResult>> = (0..n).map(|_| vec![]).collect();
        for _ in 0..n {
            let (i, r) = self.results.recv().expect("worker result");
            out[i] = r;
        }
        out
    }
}

impl Drop for WorkerPool {
    fn drop(&mut self) {
        self.senders.clear();
        for h in self.handles.drain(..) {
            let _ = h.join();
        }
    }
}

fn jitter(code: u8) {
    match code % 8 {
        0 | 1 => {}
        2 | 3 => std::thread::yield_now(),
        4 => std::thread::sleep(Duration::from_micros(20 + (code as u64 >> 3) * 8)),
        5 => {
            for _ in 0..(code as u32) * 50 {
                std::hint::spin_loop();
            }
        }
        6 => {
            std::thread::yield_now();
            std::thread::yield_now();
        }
        _ => std::thread::sleep(Duration::from_micros(1)),
    }
}

/// Executes one transaction: all variants without committing (parent mode), then the commit
/// through the monitored ledger. Returns the committed receipt (None if the execution panicked
/// or the manifest was not convertible).
#[allow(clippy::too_many_arguments)]
pub fn sampled<M: BuildableManifest>(ctx: &mut Ctx, world: &mut World, shard: &mut Shard, label: &str, manifest: M, proofs: Vec<NonFungibleGlobalId>, base_cfg: ExecutionConfig, description: String, is_system: bool) -> Option<TransactionReceipt> {
    let step = ctx.step;
    ctx.step += 1;
    let nonce = world.ledger.sim.next_transaction_nonce();
    let exe = match manifest.into_executable_with_proofs(nonce, proofs.into_iter().collect(), world.ledger.sim.transaction_validator()) {
        Ok(e) => e,
        Err(_) => {
            shard.count("harness:manifest_not_convertible");
            return None;
        }
    };
    let ref_cfg = Flags::REF.apply(&base_cfg);
    let plan = ctx.plan;
    let do_variants = plan.mode == Mode::Parent && plan.only_step.map(|s| s == step).unwrap_or(true);
    let mut reference: Option<(TransactionReceipt, Vec<Vec<u8>>)> = None;
    if do_variants {
        let m = Meta { plan, step, label, description: &description };
        let db = world.ledger.db();
        // reference: this thread, shared (warm) code cache, reference flags
        let t0 = std::time::Instant::now();
        let ref_run = exec_once(db, &ctx.warm, &ref_cfg, &exe);
        shard.add("c01:time_us:reference", t0.elapsed().as_micros() as u64);
        match ref_run {
            Err(_) => {
                // the commit below panics too and is reported by the ledger pipeline (C11)
                shard.count("c01:reference_execution_panicked");
            }
            Ok(r) => {
                let d = digest(&r);
                reference = Some((r, d));
            }
        }
        if let Some((rr, rd)) = &reference {
            shard.count("c01:transactions_sampled");
            let class = outcome_class(rr);
            let coarse = class.split(':').next().unwrap_or("").to_string();
            shard.count(&format!("c01:sampled:{coarse}"));
            shard.seen("c01:outcome_classes", &class);
            shard.seen("c01:labels", label);
            if let Some(fd) = &rr.fee_details {
                let wasm: u64 = fd.execution_cost_breakdown.iter().filter(|(k, _)| k.starts_with("RunWasmCode")).map(|(_, v)| *v as u64).sum();
                if wasm > 0 {
                    shard.count("c01:sampled_transactions_running_wasm_code");
                    shard.add("c01:wasm_cost_units_of_sampled_transactions", wasm);
                }
                if fd.execution_cost_breakdown.contains_key("PrepareWasmCode") {
                    shard.count("c01:sampled_transactions_instantiating_wasm");
                }
            }
            if label.starts_with("wat:") {
                shard.count("c01:generated_wat_package_calls_sampled");
            }
            if !rd[4].is_empty() && rd[4].len() > 3 {
                shard.count("c01:sampled_with_application_logs");
            }
            shard.nontrivial(&(label, &class, hash(&rd[2]).0, hash(&rd[3]).0));

            shard.seen("c01:label_outcomes", &format!("{label} -> {coarse}"));

            // ---- plain re-execution: same thread, same settings, same cache --------------------
            // (separates "differs between any two executions" from the effect of a setting)
            {
                let got = exec_once(db, &ctx.warm, &ref_cfg, &exe);
                shard.count("c01:variant_executions:rerun");
                if report_difference(shard, "rerun", json!({"note": "second execution with identical settings, thread and cache right after the first"}), &m, rr, rd, &got) {
                    shard.count("c01:transactions_differing_on_plain_rerun");
                }
            }

            // ---- diagnostic flags -----------------------------------------------------------
            let mut combos: Vec<Flags> = Flags::all().into_iter().filter(|f| *f != Flags::REF).collect();
            if plan.flag_variants < combos.len() {
                // always the two extremes, the rest random
                let all_off = Flags { kernel_trace: false, cost_breakdown: false, execution_trace: None, debug_information: false };
                let all_on = Flags { kernel_trace: true, cost_breakdown: true, execution_trace: Some(16), debug_information: true };
                combos.retain(|f| *f != all_off && *f != all_on);
                ctx.vrng.shuffle(&mut combos);
                // debug_information executions cost ~10x the others: one random one besides all-on
                let mut with_di = 0;
                combos.retain(|f| {
                    if f.debug_information {
                        with_di += 1;
                        with_di <= 1
                    } else {
                        true
                    }
                });
                combos.truncate(plan.flag_variants.saturating_sub(2));
                combos.push(all_off);
                combos.push(all_on);
            }
            // executed by the worker threads at the same time (different settings on the shared
            // warm cache) when there is a pool, otherwise one after the other on this thread
            let pool_taken = ctx.pool.take();
            let shared_db: Option<Arc<Db>> = pool_taken.as_ref().map(|_| Arc::new(db.clone()));
            let shared_exe = Arc::new(exe.clone());
            let t0 = std::time::Instant::now();
            let flag_results: Vec<RunResult> = match (&pool_taken, &shared_db) {
                (Some(pool), Some(sdb)) => {
                    let mut all = vec![];
                    for chunk in combos.chunks(pool.size()) {
                        let barrier = Arc::new(Barrier::new(chunk.len()));
                        let jobs: Vec<Job> = chunk
                            .iter()
                            .map(|f| Job { db: sdb.clone(), vm: ctx.warm.clone(), exe: shared_exe.clone(), cfg: f.apply(&base_cfg), jitter: vec![0, 0], reps: 1, barrier: barrier.clone() })
                            .collect();
                        for mut r in pool.round(jobs) {
                            all.push(r.pop().expect("one execution per job"));
                        }
                    }
                    all
                }
                _ => combos.iter().map(|f| exec_once(db, &ctx.warm, &f.apply(&base_cfg), &exe)).collect(),
            };
            shard.add("c01:time_us:flag_rounds", t0.elapsed().as_micros() as u64);
            for (f, got) in combos.iter().zip(flag_results) {
                shard.count(&format!("c01:executions:flags:{}", f.name()));
                shard.count("c01:variant_executions:flags");
                shard.seen("c01:flag_combinations_executed", &f.name());
                let differs = match &got {
                    Err(_) => true,
                    Ok(r) => first_diff(rd, &digest(r)).is_some(),
                };
                if differs {
                    // attribute: which single flag (others at their reference value) reproduces it?
                    // (if even a plain re-execution differs, no setting is to blame)
                    let mut blamed = String::new();
                    let plain = exec_once(db, &ctx.warm, &ref_cfg, &exe);
                    if match &plain {
                        Err(_) => true,
                        Ok(r) => first_diff(rd, &digest(r)).is_some(),
                    } {
                        blamed = "none(unstable-under-identical-settings)".to_string();
                    }
                    if blamed.is_empty() {
                    for (name, single) in f.single_flag_variations() {
                        let g = exec_once(db, &ctx.warm, &single.apply(&base_cfg), &exe);
                        let d = match &g {
                            Err(_) => true,
                            Ok(r) => first_diff(rd, &digest(r)).is_some(),
                        };
                        if d {
                            blamed = name.to_string();
                            break;
                        }
                    }
                    }
                    if blamed.is_empty() {
                        blamed = format!("combination-only({})", f.single_flag_variations().iter().map(|x| x.0).collect::<Vec<_>>().join("+"));
                    }
                    report_difference(shard, &format!("flags:{blamed}"), json!({"flags": f.name(), "reference_flags": Flags::REF.name()}), &m, rr, rd, &got);
                }
            }

            // ---- cold code cache ------------------------------------------------------------
            {
                let t0 = std::time::Instant::now();
                let cold = DefaultVmModules::default();
                let got = exec_once(db, &cold, &ref_cfg, &exe);
                shard.add("c01:time_us:cold_cache_first", t0.elapsed().as_micros() as u64);
                shard.count("c01:variant_executions:cold-vs-warm-cache");
                report_difference(shard, "cold-vs-warm-cache", json!({"cache": "fresh VmModules::default() for this one execution"}), &m, rr, rd, &got);
                // and once more on the now-warm fresh instance (hit right after the miss)
                let got2 = exec_once(db, &cold, &ref_cfg, &exe);
                shard.count("c01:variant_executions:cold-vs-warm-cache");
                report_difference(shard, "cold-vs-warm-cache", json!({"cache": "second execution on the instance that was fresh one execution ago"}), &m, rr, rd, &got2);
            }

            // ---- parallel threads -----------------------------------------------------------
            if let (Some(pool), Some(shared_db)) = (&pool_taken, &shared_db) {
                let use_fresh = ctx.vrng.chance(1, 3);
                let vm: Arc<DefaultVmModules> = if use_fresh { Arc::new(DefaultVmModules::default()) } else { ctx.warm.clone() };
                let reps = if ctx.vrng.chance(1, 8) { 2 } else { 1 };
                let n = pool.size();
                let barrier = Arc::new(Barrier::new(n));
                let jobs: Vec<Job> = (0..n)
                    .map(|_| Job { db: shared_db.clone(), vm: vm.clone(), exe: shared_exe.clone(), cfg: ref_cfg.clone(), jitter: ctx.vrng.bytes(reps * 2), reps, barrier: barrier.clone() })
                    .collect();
                let t0 = std::time::Instant::now();
                let results = pool.round(jobs);
                shard.add(if use_fresh { "c01:time_us:thread_rounds_cold" } else { "c01:time_us:thread_rounds_warm" }, t0.elapsed().as_micros() as u64);
                shard.max("c01:threads_executing_simultaneously", n as u64);
                shard.count(if use_fresh { "c01:thread_rounds_on_shared_cold_cache" } else { "c01:thread_rounds_on_shared_warm_cache" });
                for (t, rs) in results.iter().enumerate() {
                    for got in rs {
                        shard.count("c01:variant_executions:threads");
                        if report_difference(shard, "threads", json!({"thread": t, "threads": n, "shared_cache": if use_fresh { "fresh, raced by all threads" } else { "warm" }}), &m, rr, rd, got) {
                            break;
                        }
                    }
                }
            }
            ctx.pool = pool_taken;
        }
    }

    // ---- commit through the monitored ledger ---------------------------------------------------
    let t0 = std::time::Instant::now();
    let r = world.ledger.exec_executable(shard, label, exe, ref_cfg, description.clone(), is_system);
    shard.add("c01:time_us:commit_with_monitors", t0.elapsed().as_micros() as u64);
    let committed = r.receipt;
    if let Some(c) = &committed {
        let cd = digest(c);
        if let Some((rr, rd)) = &reference {
            shard.count("c01:variant_executions:committed-vs-preview");
            let m = Meta { plan, step, label, description: &description };
            report_difference(shard, "committed-vs-preview", json!({"note": "the execution whose state updates were committed (simulator's own VmModules) against the uncommitted reference execution"}), &m, rr, &rd.clone(), &Ok(c.clone()));
        }
        ctx.log.push(TxRecord { step, label: label.to_string(), hashes: part_hashes(&cd), description: if plan.keep_receipts { description } else { String::new() }, receipt: if plan.keep_receipts { Some(c.clone()) } else { None } });
    } else {
        ctx.log.push(TxRecord { step, label: label.to_string(), hashes: vec!["panicked".into()], description: String::new(), receipt: None });
    }
    committed
}

/// Hard deadline reached, or soft deadline reached with enough transactions sampled by this shard.
fn out_of_time(plan: &Plan, shard: &Shard) -> bool {
    let sampled = shard.counters.get("c01:transactions_sampled").copied().unwrap_or(0);
    shard.time_up() || (std::time::Instant::now() >= plan.soft_deadline && sampled >= plan.min_sampled)
}

/// One seeded history. Everything that shapes the history draws from `rng` only; everything
/// about variants draws from `ctx.vrng`, so parent and child build the same history.
pub fn run_history(plan: &Plan, shard: &mut Shard) -> Vec<TxRecord> {
    let mut rng = Rng::from_parts(plan.seed, PHASE + 1 + plan.history, plan.shard as u64);
    let vrng = Rng::from_parts(plan.seed, PHASE + 500_000 + plan.history, plan.shard as u64);
    let pool = if plan.mode == Mode::Parent && plan.threads > 1 { Some(WorkerPool::new(plan.threads)) } else { None };
    let mut ctx = Ctx { plan, warm: Arc::new(DefaultVmModules::default()), pool, vrng, log: vec![], step: 0 };
    let mut world = World::new(shard, &mut rng, 4);
    world.ledger.walk_every = if plan.mode == Mode::Parent { 400 } else { 0 };
    let user_cfg = ExecutionConfig::for_test_transaction;

    // set-up transactions are sampled like any other (steps 0..): packages, pool
    let mut extras = Extras::default();
    for (kind, code) in wl::wat_sources() {
        let m = wl::publish_tx(code);
        let desc = format!("publish generated WAT package {kind}");
        if let Some(r) = sampled(&mut ctx, &mut world, shard, "publish_wat_package", m, vec![], user_cfg(), desc, false) {
            if r.is_commit_success() {
                extras.wat_packages.push((kind, r.expect_commit(true).new_package_addresses()[0]));
            }
        }
    }
    if world.fungibles.len() >= 3 {
        let rs: Vec<(ResourceAddress, u8)> = world.fungibles.iter().take(3).map(|f| (f.address, f.divisibility)).collect();
        let m = wl::pool_instantiate_tx(&rs.iter().map(|x| x.0).collect::<Vec<_>>());
        let desc = describe_manifest(&m, &[]);
        if let Some(r) = sampled(&mut ctx, &mut world, shard, "pool_instantiate", m, vec![], user_cfg(), desc, false) {
            if r.is_commit_success() {
                let c = r.expect_commit(true);
                extras.pool = Some(Pool { component: c.new_component_addresses()[0], unit: c.new_resource_addresses()[0], resources: rs });
            }
        }
    }
    let setup_steps = ctx.step;

    while ctx.step < setup_steps + plan.steps {
        if plan.mode == Mode::Parent && plan.only_step.is_none() && out_of_time(plan, shard) {
            shard.count("c01:histories_cut_by_time_budget");
            break;
        }
        match rng.below(20) {
            0..=9 => match world.gen_tx(shard, &mut rng) {
                Ok((label, manifest, proofs)) => {
                    let desc = describe_manifest(&manifest, &proofs);
                    sampled(&mut ctx, &mut world, shard, label, manifest, proofs, user_cfg(), desc, false);
                }
                Err(_) => {
                    // executed by the world itself (resource creation / its own round change)
                    shard.count("c01:background_transactions_not_sampled");
                    ctx.step += 1;
                }
            },
            10..=17 => {
                let (label, manifest, proofs) = extras.gen(&mut world, &mut rng);
                let desc = describe_manifest(&manifest, &proofs);
                sampled(&mut ctx, &mut world, shard, label, manifest, proofs, user_cfg(), desc, false);
            }
            _ => {
                let (manifest, desc) = wl::round_change(&mut world, &mut rng);
                let cfg = ExecutionConfig::for_system_transaction(NetworkDefinition::simulator());
                let before = world.ledger.current_epoch();
                let r = sampled(&mut ctx, &mut world, shard, "system:next_round", manifest, vec![system_execution(SystemExecution::Validator)], cfg, desc, true);
                if r.map(|r| r.is_commit_success()).unwrap_or(false) {
                    if let Some(c) = rv_ledger::decode::consensus_clock(world.ledger.db()) {
                        world.round = c.round;
                    }
                    if world.ledger.current_epoch() != before {
                        shard.count("c01:epoch_changes_sampled");
                    }
                }
            }
        }
    }
    if plan.mode == Mode::Parent {
        rv_ledger::walkers::walk_all(shard, &world.ledger, &format!("end of history {} of shard {}", plan.history, plan.shard));
        shard.count("c01:histories");
    }
    ctx.log
}

// ------------------------------------------------------------------------------------------
// second process
// ------------------------------------------------------------------------------------------
/// Hidden subcommand: `rv-determinism C01-child --seed S <shard> <history> <steps> [dump_step]`.
/// Replays the history (commits only) and prints one line per transaction.
pub fn child(args: &Args) -> i32 {
    let num = |i: usize| args.extra.get(i).and_then(|s| s.parse::<u64>().ok());
    let (Some(shard_idx), Some(history), Some(steps)) = (num(0), num(1), num(2)) else {
        eprintln!("usage: C01-child --seed S <shard> <history> <steps> [dump_step]");
        return 2;
    };
    let dump = num(3);
    install_panic_capture();
    let plan = Plan { seed: args.seed, shard: shard_idx as usize, history, steps, mode: Mode::Child, flag_variants: 0, threads: 1, keep_receipts: dump.is_some(), only_step: None, soft_deadline: std::time::Instant::now() + Duration::from_secs(86_400), min_sampled: 0 };
    let mut shard = Shard::new(plan.shard, "C01", args.tier, std::time::Instant::now() + Duration::from_secs(86_400));
    let log = run_history(&plan, &mut shard);
    let out = std::io::stdout();
    let mut out = out.lock();
    for rec in &log {
        let _ = writeln!(out, "D {} {} {}", rec.step, rec.label, rec.hashes.join(" "));
        if dump == Some(rec.step) {
            if let Some(r) = &rec.receipt {
                for i in 0..PARTS.len() {
                    let _ = writeln!(out, "R {} {}", i, serde_json::to_string(&render(r, i)).unwrap());
                }
            }
        }
    }
    let _ = writeln!(out, "END {}", log.len());
    0
}

struct ChildOutput {
    lines: Vec<(u64, String, Vec<String>)>,
    renderings: Vec<String>,
    complete: bool,
}

fn start_child(plan: &Plan, steps: u64, dump: Option<u64>) -> Result<std::process::Child, String> {
    let exe = std::env::current_exe().map_err(|e| format!("current_exe: {e}"))?;
    let mut cmd = std::process::Command::new(exe);
    cmd.arg("C01-child").arg("--seed").arg((plan.seed as i64).to_string()).arg(plan.shard.to_string()).arg(plan.history.to_string()).arg(steps.to_string());
    if let Some(d) = dump {
        cmd.arg(d.to_string());
    }
    cmd.env_remove("VERIF_SHOW_PANICS");
    cmd.stdin(std::process::Stdio::null()).stderr(std::process::Stdio::null()).stdout(std::process::Stdio::piped());
    cmd.spawn().map_err(|e| format!("spawn: {e}"))
}

fn finish_child(child: Result<std::process::Child, String>) -> Result<ChildOutput, String> {
    let out = child?.wait_with_output().map_err(|e| format!("wait: {e}"))?;
    let text = String::from_utf8_lossy(&out.stdout);
    let mut res = ChildOutput { lines: vec![], renderings: vec![String::new(); PARTS.len()], complete: false };
    for line in text.lines() {
        let mut it = line.split(' ');
        match it.next() {
            Some("D") => {
                let step = it.next().and_then(|s| s.parse().ok()).unwrap_or(u64::MAX);
                let label = it.next().unwrap_or("").to_string();
                res.lines.push((step, label, it.map(|s| s.to_string()).collect()));
            }
            Some("R") => {
                let i: usize = it.next().and_then(|s| s.parse().ok()).unwrap_or(0);
                let rest = line.splitn(3, ' ').nth(2).unwrap_or("\"\"");
                if i < PARTS.len() {
                    res.renderings[i] = serde_json::from_str::<String>(rest).unwrap_or_default();
                }
            }
            Some("END") => res.complete = true,
            _ => {}
        }
    }
    if !res.complete {
        return Err(format!("child did not finish (status {:?}, {} lines)", out.status.code(), res.lines.len()));
    }
    Ok(res)
}

/// A commit-only history executed here and, concurrently, by a fresh process started from the
/// same binary; the per-transaction digests of the committed receipts are then diffed.
fn child_comparison(plan: &Plan, shard: &mut Shard) {
    let child = start_child(plan, plan.steps, None);
    let log = run_history(plan, shard);
    let log = &log[..];
    let out = match finish_child(child) {
        Ok(o) => o,
        Err(e) => {
            shard.count("c01:child_processes_failed");
            shard.notes.push(format!("child process for shard {} history {}: {e}", plan.shard, plan.history));
            return;
        }
    };
    shard.add("c01:transactions_in_histories_replayed_by_child", log.len() as u64);
    shard.count("c01:child_processes_compared");
    let n = log.len().min(out.lines.len());
    for i in 0..n {
        let (p, c) = (&log[i], &out.lines[i]);
        shard.count("c01:variant_executions:child-process");
        if p.step != c.0 || p.label != c.1 {
            // history diverged without an earlier digest difference: generator-side effect
            shard.count("c01:child_history_diverged_without_digest_difference");
            shard.notes.push(format!("child history diverged at record {i}: parent ({}, {}) child ({}, {})", p.step, p.label, c.0, c.1));
            shard.add("harness_panics", 1);
            return;
        }
        if p.hashes != c.2 {
            let part = (0..PARTS.len().min(p.hashes.len()).min(c.2.len())).find(|&k| p.hashes[k] != c.2[k]);
            let part_name = part.map(|k| PARTS[k]).unwrap_or("panic");
            // best effort: ask one more process for its rendering of that transaction
            let child_rendering = match (part, finish_child(start_child(plan, plan.steps, Some(p.step)))) {
                (Some(k), Ok(o2)) => {
                    shard.count("c01:child_processes_compared");
                    o2.renderings[k].clone()
                }
                _ => String::new(),
            };
            let parent_rendering = match (part, &p.receipt) {
                (Some(k), Some(r)) => render(r, k),
                _ => String::new(),
            };
            shard.violation(
                format!("digest-differs:child-process:{part_name}"),
                json!({"seed": plan.seed as i64, "shard": plan.shard, "history": plan.history, "step": p.step, "steps": plan.steps, "tx_label": p.label, "tx": p.description,
                    "variant": "child-process", "differing_part": part_name, "parent_part_hashes": p.hashes, "child_part_hashes": c.2,
                    "reference_rendering": parent_rendering, "variant_rendering": child_rendering,
                    "note": "first transaction of the history whose committed digest differs between the two processes; later ones follow from it"}),
            );
            return;
        }
    }
    if log.len() != out.lines.len() {
        shard.notes.push(format!("child produced {} records, parent {}", out.lines.len(), log.len()));
        shard.add("harness_panics", 1);
    }
}

// ------------------------------------------------------------------------------------------
// check
// ------------------------------------------------------------------------------------------
pub fn spec() -> Spec {
    Spec::new(
        "C01",
        "exploration",
        "seeded ledger histories (default W-LEDGER mix + generated WAT packages incl. traps / out-of-cost-unit loops / log-writing host calls + wide multi-resource batches + a three-resource pool + rejected transactions + consensus round and epoch changes); every transaction is executed without committing under the reference settings, under combinations of {kernel_trace, cost_breakdown, execution_trace none/1/16, debug_information}, once more with identical settings, on a fresh VmModules (cold code cache, then the hit right after), on N OS threads at once against the shared database and a shared code cache (warm, or fresh and raced) with injected yields/sleeps, then committed; whole histories are replayed by a second process. Oracle: byte equality of the canonical digest (kind, outcome incl. error, state_updates in order, application_events, application_logs, fee_summary, fee_source, fee_destination, new entities, performed_nullifications; SBOR bytes). A transaction is non-trivial when it executed; distinct = distinct (label, outcome class, state-update hash, event hash).",
    )
    .assume("same machine / architecture / binary for all executions (other CPU architectures and 32-bit targets are out of reach); no sanitizer build")
    .assume("excluded from the digest because they are the diagnostic outputs: fee_details, debug_information, execution_trace, resources_usage (and the derived system_structure / vault_balance_changes annotations)")
    .assume("the history generator reads balances through the repository's database reader; parent and child must build identical histories for the process comparison to be meaningful (a divergence without a digest difference makes the run inconclusive)")
    .floor("c01:transactions_sampled", 200)
    .floor("c01:sampled:commit-success", 60)
    .floor("c01:sampled:commit-failure", 20)
    .floor("c01:sampled:reject", 10)
    .floor("c01:variant_executions:rerun", 200)
    .floor("c01:variant_executions:flags", 1000)
    .floor("c01:variant_executions:cold-vs-warm-cache", 400)
    .floor("c01:variant_executions:threads", 3000)
    .floor("c01:variant_executions:committed-vs-preview", 200)
    .floor("c01:variant_executions:child-process", 250)
    .floor("c01:child_processes_compared", 1)
    .floor("c01:sampled_transactions_running_wasm_code", 120)
    .floor("c01:generated_wat_package_calls_sampled", 8)
    .floor("c01:thread_rounds_on_shared_cold_cache", 20)
}

/// History indices from here on are the commit-only histories of the process comparison.
pub const CHILD_HISTORY_BASE: u64 = 1000;

fn child_plan(seed: u64, shard: usize, history: u64, steps: u64) -> Plan {
    Plan { seed, shard, history, steps, mode: Mode::Parent, flag_variants: 0, threads: 1, keep_receipts: true, only_step: Some(u64::MAX), soft_deadline: std::time::Instant::now() + Duration::from_secs(86_400), min_sampled: 0 }
}

pub fn run(args: &Args) -> i32 {
    let guard = StdoutGuard::silence();
    let mut report = Report::new(args, spec());
    if let Some(path) = &args.replay {
        let code = replay(args, path, report, &guard);
        return code;
    }
    // few shards, each with its own pool of 16 worker threads (more shards only fight each other)
    let shards = (args.threads / 4).clamp(1, 4);
    let histories_per_shard = args.tier.pick((4 / shards as u64).max(1), 12);
    let steps = scaled(args, args.tier.pick(150, 420));
    let flag_variants = args.tier.pick(6usize, 23);
    let children = args.tier.pick(1usize, 3);
    let child_steps = scaled(args, args.tier.pick(300, 2500));
    let threads = 16usize;
    // soft budget: what the tier is meant to take; on a loaded machine a shard keeps going past it
    // (up to the hard budget) until it has sampled `min_sampled` transactions, so that the floors
    // are decided by the workload and not by how busy the machine is
    let soft = budget_secs(args.tier, 60, 840);
    let soft_deadline = std::time::Instant::now() + Duration::from_secs(soft);
    let budget = Duration::from_secs(args.tier.pick(soft * 3, soft + 120));
    let min_sampled = 300 / shards as u64 + 1;
    let seed = args.seed;
    report.run_shards(PHASE, shards, budget, |i, _rng, shard| {
        if i < children {
            // long commit-only history, replayed by a second process at the same time
            child_comparison(&child_plan(seed, i, CHILD_HISTORY_BASE, child_steps), shard);
        }
        for h in 0..histories_per_shard {
            let plan = Plan { seed, shard: i, history: h, steps, mode: Mode::Parent, flag_variants, threads, keep_receipts: false, only_step: None, soft_deadline, min_sampled };
            if out_of_time(&plan, shard) {
                break;
            }
            let log = run_history(&plan, shard);
            shard.sample(|| json!({"shard": i, "history": h, "transactions": log.len(), "last": log.last().map(|r| json!({"step": r.step, "label": r.label, "part_hashes": r.hashes}))}));
        }
    });
    report.extra.insert("digest_parts".into(), json!(PARTS));
    report.extra.insert("threads_per_sampled_transaction".into(), json!(threads));
    report.extra.insert("shards".into(), json!(shards));
    guard.restore();
    report.finish()
}

fn replay(_args: &Args, path: &std::path::Path, mut report: Report, guard: &StdoutGuard) -> i32 {
    let doc: Value = serde_json::from_str(&std::fs::read_to_string(path).expect("replay file")).expect("json");
    let d = &doc["detail"];
    let (Some(seed), Some(shard_idx), Some(history), Some(step), Some(steps)) = (d["seed"].as_i64(), d["shard"].as_u64(), d["history"].as_u64(), d["step"].as_u64(), d["steps"].as_u64()) else {
        guard.restore();
        println!("replay file does not describe a C01 case: {d}");
        return 2;
    };
    let variant = d["variant"].as_str().unwrap_or("").to_string();
    let mut shard = Shard::new(shard_idx as usize, "C01", report.args.tier, std::time::Instant::now() + Duration::from_secs(3600));
    if variant == "child-process" {
        child_comparison(&child_plan(seed as u64, shard_idx as usize, history, steps), &mut shard);
    } else {
        // only the recorded step gets the variants (all of them)
        let plan = Plan { seed: seed as u64, shard: shard_idx as usize, history, steps, mode: Mode::Parent, flag_variants: 23, threads: 16, keep_receipts: false, only_step: Some(step), soft_deadline: std::time::Instant::now() + Duration::from_secs(86_400), min_sampled: 0 };
        run_history_until(&plan, &mut shard, step);
    }
    guard.restore();
    let mine: Vec<&Violation> = shard.violations.iter().filter(|v| v.prop == "C01").collect();
    println!("replayed seed={seed} shard={shard_idx} history={history} step={step} ({}): {} C01 violation(s)", d["tx_label"].as_str().unwrap_or("?"), mine.len());
    for v in &mine {
        println!("  {} part={} step={}", v.signature, v.detail["differing_part"], v.detail["step"]);
    }
    shard.nontrivial(&1);
    shard.nontrivial(&2);
    report.merge(shard);
    report.spec.floors.clear();
    report.finish()
}

/// `run_history` limited to the steps up to `last_step` (inclusive).
fn run_history_until(plan: &Plan, shard: &mut Shard, last_step: u64) -> Vec<TxRecord> {
    // number of set-up steps is fixed by the workload: WAT packages + pool
    let setup = wl::wat_sources().len() as u64 + 1;
    let steps = (last_step + 1).saturating_sub(setup).min(plan.steps);
    let p = Plan { steps, ..*plan };
    run_history(&p, shard)
}
