//! C01: deterministic transaction execution (re-execution variants over seeded ledger histories).
mod c01;
mod wl;

fn main() {
    let args = rv_common::parse_args();
    let code = match args.prop.as_str() {
        "C01" => c01::run(&args),
        // hidden: second process of the child-process comparison
        "C01-child" => c01::child(&args),
        other => {
            eprintln!("rv-determinism: no check named {other}");
            2
        }
    };
    std::process::exit(code);
}
