//! C34: transaction validation enforces exactly the configured limits.
//!
//! Oracle = `predicate`: an independent reading of the property text over plain *facts* of the
//! transaction (read off the typed model, never from prepared/validated structures) and the
//! `TransactionValidationConfig`.
//!
//! Verdict-bearing:
//!  * every case: accepted ⇒ predicate has no failing clause, and (V2) the returned overall
//!    validity window equals the intersection of all intents' windows;
//!  * boundary cases (one dimension set to limit-1 / limit / limit+1 on an otherwise comfortably
//!    valid transaction): predicate has no failing clause ⇒ accepted (the limit itself must be
//!    accepted), which together with the first rule pins every limit to its exact boundary.
use crate::gen::*;
use radix_common::prelude::*;
use radix_transactions::manifest::*;
use radix_transactions::prelude::*;
use radix_transactions::validation::*;
use rv_common::*;
use serde_json::{json, Value};
use std::time::Duration;

// ---------------------------------------------------------------------------------------------
// Specs (what the generator wants) → typed transactions
// ---------------------------------------------------------------------------------------------
#[derive(Clone, Debug)]
pub enum MsgSpec {
    None,
    Plain { mime: usize, len: usize, bytes: bool },
    Enc { len: usize, n_ed: usize, n_secp: usize },
}

#[derive(Clone, Debug)]
pub struct IntentSpec {
    pub network: u8,
    pub start: u64,
    pub end: u64,
    pub min_ts: Option<i64>,
    pub max_ts: Option<i64>,
    pub msg: MsgSpec,
    /// filler instructions without references
    pub n_plain: usize,
    /// distinct references, carried by one CALL_METHOD (0 = no such call)
    pub n_refs: usize,
    pub blobs: Vec<usize>,
    pub n_sigs: usize,
    /// indices into `TxSpec::subs`
    pub children: Vec<usize>,
}

#[derive(Clone, Debug)]
pub struct TxSpec {
    pub v2: bool,
    pub partial: bool,
    pub tip_pct: u16,
    pub tip_bp: u32,
    pub notary: KeyId,
    pub notary_is_signatory: bool,
    pub root: IntentSpec,
    pub subs: Vec<IntentSpec>,
    pub salt: u64,
}

impl TxSpec {
    fn intent(&mut self, which: usize) -> &mut IntentSpec {
        if which == 0 {
            &mut self.root
        } else {
            &mut self.subs[which - 1]
        }
    }
    fn get(&self, which: usize) -> &IntentSpec {
        if which == 0 {
            &self.root
        } else {
            &self.subs[which - 1]
        }
    }
    fn n_intents(&self) -> usize {
        1 + self.subs.len()
    }
    /// depth of every sub (root children = 1) following the children lists
    fn depths(&self) -> Vec<usize> {
        let mut d = vec![0usize; self.subs.len()];
        fn walk(spec: &TxSpec, children: &[usize], depth: usize, d: &mut Vec<usize>) {
            for c in children {
                d[*c] = depth;
                walk(spec, &spec.subs[*c].children, depth + 1, d);
            }
        }
        walk(self, &self.root.children, 1, &mut d);
        d
    }
}

fn signer_keys_for(salt: u64, which: usize, n: usize) -> Vec<KeyId> {
    // n distinct keys, deterministic per (salt, intent); both curves
    let total = 2 * KEYS_PER_CURVE;
    let off = (salt as usize).wrapping_add(which * 7) % total;
    (0..n)
        .map(|i| {
            let k = (off + i) % total;
            KeyId { curve: if k % 2 == 0 { Curve::Secp } else { Curve::Ed }, idx: k / 2 }
        })
        .collect()
}

fn msg_v1(rng: &mut Rng, m: &MsgSpec) -> MessageV1 {
    match m {
        MsgSpec::None => MessageV1::None,
        MsgSpec::Plain { mime, len, bytes } => MessageV1::Plaintext(plaintext(rng, *mime, *len, *bytes)),
        MsgSpec::Enc { len, n_ed, n_secp } => encrypted_v1(rng, *len, *n_ed, *n_secp),
    }
}

fn msg_v2(rng: &mut Rng, m: &MsgSpec) -> MessageV2 {
    match m {
        MsgSpec::None => MessageV2::None,
        MsgSpec::Plain { mime, len, bytes } => MessageV2::Plaintext(plaintext(rng, *mime, *len, *bytes)),
        MsgSpec::Enc { len, n_ed, n_secp } => encrypted_v2(rng, *len, *n_ed, *n_secp),
    }
}

fn blobs_of(sizes: &[usize], salt: u64) -> BlobsV1 {
    BlobsV1 {
        blobs: sizes
            .iter()
            .enumerate()
            .map(|(i, n)| {
                // distinct contents: index + salt in the first bytes where there is room
                let mut b = vec![0u8; *n];
                let tag = (salt.wrapping_mul(31).wrapping_add(i as u64)).to_le_bytes();
                for (k, x) in b.iter_mut().enumerate() {
                    *x = tag[k % 8] ^ (k / 8) as u8;
                }
                BlobV1(b)
            })
            .collect(),
    }
}

fn ref_call(tag: u64, n_refs: usize) -> CallMethod {
    let callee = nth_global_address(tag, 0);
    let refs: Vec<GlobalAddress> = (1..n_refs as u64).map(|k| nth_global_address(tag, k)).collect();
    call_with_refs(callee, "m", &refs)
}

pub fn build_v1_from(rng: &mut Rng, spec: &TxSpec) -> NotarizedTransactionV1 {
    let s = &spec.root;
    let mut instr = vec![];
    for _ in 0..s.n_plain {
        instr.push(InstructionV1::DropAuthZoneProofs(DropAuthZoneProofs));
    }
    if s.n_refs > 0 {
        instr.push(InstructionV1::CallMethod(ref_call(spec.salt, s.n_refs)));
    }
    let intent = IntentV1 {
        header: TransactionHeaderV1 {
            network_id: s.network,
            start_epoch_inclusive: Epoch::of(s.start),
            end_epoch_exclusive: Epoch::of(s.end),
            nonce: spec.salt as u32,
            notary_public_key: spec.notary.public(),
            notary_is_signatory: spec.notary_is_signatory,
            tip_percentage: spec.tip_pct,
        },
        instructions: InstructionsV1(instr),
        blobs: blobs_of(&s.blobs, spec.salt),
        message: msg_v1(rng, &s.msg),
    };
    build_v1(intent, &signer_keys_for(spec.salt, 0, s.n_sigs), spec.notary)
}

fn core_v2(rng: &mut Rng, spec: &TxSpec, which: usize, s: &IntentSpec, child_hashes: &[Hash], is_subintent: bool) -> IntentCoreV2 {
    let mut instr = vec![];
    for _ in 0..s.n_plain {
        instr.push(InstructionV2::DropAuthZoneProofs(DropAuthZoneProofs));
    }
    if s.n_refs > 0 {
        instr.push(InstructionV2::CallMethod(ref_call(spec.salt.wrapping_add(1 + which as u64), s.n_refs)));
    }
    for i in 0..child_hashes.len() {
        instr.push(InstructionV2::YieldToChild(YieldToChild::empty(i as u32)));
    }
    if is_subintent {
        instr.push(InstructionV2::YieldToParent(YieldToParent::empty()));
    }
    IntentCoreV2 {
        header: IntentHeaderV2 {
            network_id: s.network,
            start_epoch_inclusive: Epoch::of(s.start),
            end_epoch_exclusive: Epoch::of(s.end),
            min_proposer_timestamp_inclusive: s.min_ts.map(Instant::new),
            max_proposer_timestamp_exclusive: s.max_ts.map(Instant::new),
            intent_discriminator: spec.salt.wrapping_mul(1000).wrapping_add(which as u64),
        },
        blobs: blobs_of(&s.blobs, spec.salt.wrapping_add(which as u64)),
        message: msg_v2(rng, &s.msg),
        children: ChildSubintentSpecifiersV2 { children: child_hashes.iter().map(|h| ChildSubintentSpecifier { hash: SubintentHash::from_hash(*h) }).collect() },
        instructions: InstructionsV2(instr),
    }
}

pub enum BuiltV2 {
    Notarized(NotarizedTransactionV2),
    Partial(SignedPartialTransactionV2),
}

pub fn build_v2_from(rng: &mut Rng, spec: &TxSpec) -> BuiltV2 {
    let n = spec.subs.len();
    let mut built: Vec<Option<(SubintentV2, Hash)>> = vec![None; n];
    fn build_sub(rng: &mut Rng, spec: &TxSpec, i: usize, built: &mut Vec<Option<(SubintentV2, Hash)>>) -> Hash {
        if let Some((_, h)) = &built[i] {
            return *h;
        }
        let kids: Vec<Hash> = spec.subs[i].children.clone().iter().map(|c| build_sub(rng, spec, *c, built)).collect();
        let core = core_v2(rng, spec, 1 + i, &spec.subs[i], &kids, true);
        let s = SubintentV2 { intent_core: core };
        let h = subintent_hash(&s);
        built[i] = Some((s, h));
        h
    }
    for i in 0..n {
        build_sub(rng, spec, i, &mut built);
    }
    let root_kids: Vec<Hash> = spec.root.children.iter().map(|c| built[*c].as_ref().unwrap().1).collect();
    let root_core = core_v2(rng, spec, 0, &spec.root, &root_kids, spec.partial);
    let subs: Vec<SubintentV2> = built.iter().map(|b| b.as_ref().unwrap().0.clone()).collect();
    let sub_signers: Vec<Vec<KeyId>> = (0..n).map(|i| signer_keys_for(spec.salt, 1 + i, spec.subs[i].n_sigs)).collect();
    let root_signers = signer_keys_for(spec.salt, 0, spec.root.n_sigs);
    if spec.partial {
        let root = SubintentV2 { intent_core: root_core };
        let rh = subintent_hash(&root);
        let batches = subs
            .iter()
            .zip(sub_signers.iter())
            .map(|(s, ks)| {
                let h = subintent_hash(s);
                IntentSignaturesV2 { signatures: ks.iter().map(|k| IntentSignatureV1(k.sign_with_pk(&h))).collect() }
            })
            .collect();
        BuiltV2::Partial(SignedPartialTransactionV2 {
            partial_transaction: PartialTransactionV2 { root_subintent: root, non_root_subintents: NonRootSubintentsV2(subs) },
            root_subintent_signatures: IntentSignaturesV2 { signatures: root_signers.iter().map(|k| IntentSignatureV1(k.sign_with_pk(&rh))).collect() },
            non_root_subintent_signatures: NonRootSubintentSignaturesV2 { by_subintent: batches },
        })
    } else {
        let ti = TransactionIntentV2 {
            transaction_header: TransactionHeaderV2 { notary_public_key: spec.notary.public(), notary_is_signatory: spec.notary_is_signatory, tip_basis_points: spec.tip_bp },
            root_intent_core: root_core,
            non_root_subintents: NonRootSubintentsV2(subs),
        };
        BuiltV2::Notarized(build_v2(ti, &root_signers, &sub_signers, spec.notary))
    }
}

// ---------------------------------------------------------------------------------------------
// Facts: read off the typed model
// ---------------------------------------------------------------------------------------------
#[derive(Clone, Debug)]
pub struct IntentFacts {
    pub network: u8,
    pub start: u64,
    pub end: u64,
    pub min_ts: Option<i64>,
    pub max_ts: Option<i64>,
    /// 0 none, 1 plaintext, 2 encrypted
    pub msg_kind: u8,
    pub mime_len: usize,
    pub plain_len: usize,
    pub enc_len: usize,
    pub decryptors: usize,
    pub n_instr: usize,
    pub n_refs: usize,
    pub n_blobs: usize,
    pub n_sigs: usize,
    pub n_children: usize,
    pub depth: usize,
}

#[derive(Clone, Debug)]
pub struct TxFacts {
    pub v2: bool,
    pub partial: bool,
    pub tip_pct: u16,
    pub tip_bp: u32,
    pub payload_len: usize,
    pub n_sig_batches: usize,
    /// root first
    pub intents: Vec<IntentFacts>,
}

fn refs_in_value(v: &ManifestValue, out: &mut BTreeSet<NodeId>) {
    match v {
        ManifestValue::Custom { value: ManifestCustomValue::Address(ManifestAddress::Static(n)) } => {
            out.insert(*n);
        }
        ManifestValue::Tuple { fields } | ManifestValue::Enum { fields, .. } => fields.iter().for_each(|f| refs_in_value(f, out)),
        ManifestValue::Array { elements, .. } => elements.iter().for_each(|f| refs_in_value(f, out)),
        ManifestValue::Map { entries, .. } => entries.iter().for_each(|(k, v)| {
            refs_in_value(k, out);
            refs_in_value(v, out)
        }),
        _ => {}
    }
}

fn refs_call_method(c: &CallMethod, out: &mut BTreeSet<NodeId>) {
    if let ManifestGlobalAddress::Static(a) = &c.address {
        out.insert(a.into_node_id());
    }
    refs_in_value(&c.args, out);
}

fn refs_call_function(c: &CallFunction, out: &mut BTreeSet<NodeId>) {
    if let ManifestPackageAddress::Static(a) = &c.package_address {
        out.insert(a.into_node_id());
    }
    refs_in_value(&c.args, out);
}

fn refs_v1(instr: &[InstructionV1]) -> usize {
    let mut out = BTreeSet::new();
    for i in instr {
        match i {
            InstructionV1::CallMethod(c) => refs_call_method(c, &mut out),
            InstructionV1::CallFunction(c) => refs_call_function(c, &mut out),
            InstructionV1::AssertWorktopContainsAny(a) => {
                out.insert(a.resource_address.into_node_id());
            }
            InstructionV1::TakeAllFromWorktop(a) => {
                out.insert(a.resource_address.into_node_id());
            }
            InstructionV1::DropAuthZoneProofs(_) | InstructionV1::DropAllProofs(_) | InstructionV1::DropNamedProofs(_) | InstructionV1::DropAuthZoneSignatureProofs(_) | InstructionV1::DropAuthZoneRegularProofs(_) | InstructionV1::ReturnToWorktop(_) => {}
            other => panic!("harness: reference walker does not know {other:?}"),
        }
    }
    out.len()
}

fn refs_v2(instr: &[InstructionV2]) -> usize {
    let mut out = BTreeSet::new();
    for i in instr {
        match i {
            InstructionV2::CallMethod(c) => refs_call_method(c, &mut out),
            InstructionV2::CallFunction(c) => refs_call_function(c, &mut out),
            InstructionV2::AssertWorktopContainsAny(a) => {
                out.insert(a.resource_address.into_node_id());
            }
            InstructionV2::TakeAllFromWorktop(a) => {
                out.insert(a.resource_address.into_node_id());
            }
            InstructionV2::YieldToChild(y) => refs_in_value(&y.args, &mut out),
            InstructionV2::YieldToParent(y) => refs_in_value(&y.args, &mut out),
            InstructionV2::DropAuthZoneProofs(_) | InstructionV2::DropAllProofs(_) | InstructionV2::DropNamedProofs(_) | InstructionV2::DropAuthZoneSignatureProofs(_) | InstructionV2::DropAuthZoneRegularProofs(_) | InstructionV2::ReturnToWorktop(_) => {}
            other => panic!("harness: reference walker does not know {other:?}"),
        }
    }
    out.len()
}

fn msg_facts_plain(p: &PlaintextMessageV1) -> (usize, usize) {
    let n = match &p.message {
        MessageContentsV1::String(s) => s.len(),
        MessageContentsV1::Bytes(b) => b.len(),
    };
    (p.mime_type.len(), n)
}

pub fn facts_v1(tx: &NotarizedTransactionV1, payload_len: usize) -> TxFacts {
    let i = &tx.signed_intent.intent;
    let mut f = IntentFacts {
        network: i.header.network_id,
        start: i.header.start_epoch_inclusive.number(),
        end: i.header.end_epoch_exclusive.number(),
        min_ts: None,
        max_ts: None,
        msg_kind: 0,
        mime_len: 0,
        plain_len: 0,
        enc_len: 0,
        decryptors: 0,
        n_instr: i.instructions.0.len(),
        n_refs: refs_v1(&i.instructions.0),
        n_blobs: i.blobs.blobs.len(),
        n_sigs: tx.signed_intent.intent_signatures.signatures.len(),
        n_children: 0,
        depth: 0,
    };
    match &i.message {
        MessageV1::None => {}
        MessageV1::Plaintext(p) => {
            f.msg_kind = 1;
            (f.mime_len, f.plain_len) = msg_facts_plain(p);
        }
        MessageV1::Encrypted(e) => {
            f.msg_kind = 2;
            f.enc_len = e.encrypted.0.len();
            f.decryptors = e.decryptors_by_curve.values().map(|d| d.number_of_decryptors()).sum();
        }
    }
    TxFacts { v2: false, partial: false, tip_pct: i.header.tip_percentage, tip_bp: 0, payload_len, n_sig_batches: 0, intents: vec![f] }
}

fn facts_core(c: &IntentCoreV2, n_sigs: usize, depth: usize) -> IntentFacts {
    let mut f = IntentFacts {
        network: c.header.network_id,
        start: c.header.start_epoch_inclusive.number(),
        end: c.header.end_epoch_exclusive.number(),
        min_ts: c.header.min_proposer_timestamp_inclusive.map(|t| t.seconds_since_unix_epoch),
        max_ts: c.header.max_proposer_timestamp_exclusive.map(|t| t.seconds_since_unix_epoch),
        msg_kind: 0,
        mime_len: 0,
        plain_len: 0,
        enc_len: 0,
        decryptors: 0,
        n_instr: c.instructions.0.len(),
        n_refs: refs_v2(&c.instructions.0),
        n_blobs: c.blobs.blobs.len(),
        n_sigs,
        n_children: c.children.children.len(),
        depth,
    };
    match &c.message {
        MessageV2::None => {}
        MessageV2::Plaintext(p) => {
            f.msg_kind = 1;
            (f.mime_len, f.plain_len) = msg_facts_plain(p);
        }
        MessageV2::Encrypted(e) => {
            f.msg_kind = 2;
            f.enc_len = e.encrypted.0.len();
            f.decryptors = e.decryptors_by_curve.values().map(|d| d.number_of_decryptors()).sum();
        }
    }
    f
}

pub fn facts_v2(tx: &NotarizedTransactionV2, payload_len: usize, depths: &[usize]) -> TxFacts {
    let s = &tx.signed_transaction_intent;
    let ti = &s.transaction_intent;
    let mut intents = vec![facts_core(&ti.root_intent_core, s.transaction_intent_signatures.signatures.len(), 0)];
    for (k, sub) in ti.non_root_subintents.0.iter().enumerate() {
        let n_sigs = s.non_root_subintent_signatures.by_subintent.get(k).map(|b| b.signatures.len()).unwrap_or(0);
        intents.push(facts_core(&sub.intent_core, n_sigs, depths.get(k).copied().unwrap_or(0)));
    }
    TxFacts { v2: true, partial: false, tip_pct: 0, tip_bp: ti.transaction_header.tip_basis_points, payload_len, n_sig_batches: s.non_root_subintent_signatures.by_subintent.len(), intents }
}

pub fn facts_partial(tx: &SignedPartialTransactionV2, payload_len: usize, depths: &[usize]) -> TxFacts {
    let p = &tx.partial_transaction;
    let mut intents = vec![facts_core(&p.root_subintent.intent_core, tx.root_subintent_signatures.signatures.len(), 0)];
    for (k, sub) in p.non_root_subintents.0.iter().enumerate() {
        let n_sigs = tx.non_root_subintent_signatures.by_subintent.get(k).map(|b| b.signatures.len()).unwrap_or(0);
        intents.push(facts_core(&sub.intent_core, n_sigs, depths.get(k).copied().unwrap_or(0)));
    }
    TxFacts { v2: true, partial: true, tip_pct: 0, tip_bp: 0, payload_len, n_sig_batches: tx.non_root_subintent_signatures.by_subintent.len(), intents }
}

// ---------------------------------------------------------------------------------------------
// The predicate (property text → clauses). Returns failing clauses.
// ---------------------------------------------------------------------------------------------
pub struct Window {
    pub start: u64,
    pub end: u64,
    pub min_ts: Option<i64>,
    pub max_ts: Option<i64>,
}

/// Intersection of all intents' windows (V2 overall validity range)
pub fn intersection(f: &TxFacts) -> Window {
    Window {
        start: f.intents.iter().map(|i| i.start).max().unwrap(),
        end: f.intents.iter().map(|i| i.end).min().unwrap(),
        min_ts: f.intents.iter().filter_map(|i| i.min_ts).max(),
        max_ts: f.intents.iter().filter_map(|i| i.max_ts).min(),
    }
}

pub fn predicate(f: &TxFacts, cfg: &TransactionValidationConfig, required_network: Option<u8>) -> Vec<&'static str> {
    let mut bad = vec![];
    let m = &cfg.message_validation;
    let p = &cfg.preparation_settings;
    if f.v2 && !(cfg.v2_transactions_allowed && p.v2_transactions_permitted) {
        bad.push("v2-not-permitted");
    }
    // complete user transactions have a payload limit; partial transactions have none of their own
    if !f.partial && f.payload_len > p.max_user_payload_length {
        bad.push("payload-too-large");
    }
    for i in &f.intents {
        if let Some(n) = required_network {
            if i.network != n {
                bad.push("network");
            }
        }
        if i.end <= i.start {
            bad.push("epoch-window-empty");
        } else if (i.end - i.start) as u128 > cfg.max_epoch_range as u128 {
            bad.push("epoch-window-too-long");
        }
        if let (Some(a), Some(b)) = (i.min_ts, i.max_ts) {
            if a >= b {
                bad.push("timestamp-window-empty");
            }
        }
        match i.msg_kind {
            1 => {
                if i.mime_len > m.max_mime_type_length {
                    bad.push("mime-too-long");
                }
                if i.plain_len > m.max_plaintext_message_length {
                    bad.push("plaintext-too-long");
                }
            }
            2 => {
                if i.enc_len > m.max_encrypted_message_length {
                    bad.push("encrypted-too-long");
                }
                if i.decryptors > m.max_decryptors {
                    bad.push("too-many-decryptors");
                }
            }
            _ => {}
        }
        if i.n_instr > cfg.max_instructions {
            bad.push("too-many-instructions");
        }
        if i.n_refs > cfg.max_references_per_intent {
            bad.push("too-many-references-in-intent");
        }
        if i.n_blobs > p.max_blobs {
            bad.push("too-many-blobs");
        }
        if i.n_sigs > cfg.max_signer_signatures_per_intent {
            bad.push("too-many-signatures-in-intent");
        }
        if i.n_children > p.max_child_subintents_per_intent {
            bad.push("too-many-children");
        }
        let allowed_depth = if f.partial { cfg.max_subintent_depth as i64 - 1 } else { cfg.max_subintent_depth as i64 };
        if i.depth as i64 > allowed_depth && i.depth > 0 {
            bad.push("too-deep");
        }
    }
    if f.intents.len() - 1 > p.max_subintents_per_transaction || f.n_sig_batches > p.max_subintents_per_transaction {
        bad.push("too-many-subintents");
    }
    let total_refs: u128 = f.intents.iter().map(|i| i.n_refs as u128).sum();
    if total_refs > cfg.max_total_references as u128 {
        bad.push("too-many-references-in-total");
    }
    // every intent signature and the notary signature (if there is a notary) is one validation
    let total_sigs: u128 = f.intents.iter().map(|i| i.n_sigs as u128).sum::<u128>() + if f.partial { 0 } else { 1 };
    if total_sigs > cfg.max_total_signature_validations as u128 {
        bad.push("too-many-signatures-in-total");
    }
    if f.v2 {
        if f.tip_bp < cfg.min_tip_basis_points || f.tip_bp > cfg.max_tip_basis_points {
            if !f.partial {
                bad.push("tip");
            }
        }
        let w = intersection(f);
        if w.start >= w.end {
            bad.push("no-common-epoch-window");
        }
        if let (Some(a), Some(b)) = (w.min_ts, w.max_ts) {
            if a >= b {
                bad.push("no-common-timestamp-window");
            }
        }
    } else if f.tip_pct < cfg.min_tip_percentage || f.tip_pct > cfg.max_tip_percentage {
        bad.push("tip");
    }
    bad.sort();
    bad.dedup();
    bad
}

// ---------------------------------------------------------------------------------------------
// Configurations
// ---------------------------------------------------------------------------------------------
fn pick_usize(rng: &mut Rng, small_max: usize, defaults: &[usize]) -> usize {
    match rng.below(4) {
        0 => *rng.pick(defaults),
        _ => rng.usize_below(small_max + 1),
    }
}

pub fn rand_config(rng: &mut Rng) -> (TransactionValidationConfig, &'static str) {
    match rng.below(10) {
        0 => {
            // babylon limits, but with V2 payloads preparable so that the V2 fields are exercised too
            let mut c = TransactionValidationConfig::babylon();
            if rng.bool() {
                c.preparation_settings = PreparationSettings::cuttlefish();
            }
            (c, "babylon")
        }
        1 | 2 => (TransactionValidationConfig::cuttlefish(), "cuttlefish"),
        _ => {
            let mut c = TransactionValidationConfig::cuttlefish();
            c.max_signer_signatures_per_intent = pick_usize(rng, 6, &[16]);
            c.max_references_per_intent = pick_usize(rng, 8, &[512, usize::MAX]);
            c.min_tip_percentage = if rng.bool() { 0 } else { rng.below(6) as u16 };
            c.max_tip_percentage = match rng.below(4) {
                0 => u16::MAX,
                1 => c.min_tip_percentage,
                2 => c.min_tip_percentage.saturating_sub(1),
                _ => c.min_tip_percentage + rng.below(10) as u16,
            };
            c.max_epoch_range = match rng.below(25) {
                0..=4 => 12 * 24 * 30,
                // "unlimited": start + max overflows for every start > 0, everything is rejected
                5 => u64::MAX,
                6 => u64::MAX - 6000,
                7..=11 => 1,
                _ => 1 + rng.below(50),
            };
            c.max_instructions = pick_usize(rng, 12, &[1000, usize::MAX]);
            c.message_validation = MessageValidationConfig {
                max_plaintext_message_length: pick_usize(rng, 64, &[2048]),
                max_encrypted_message_length: pick_usize(rng, 64, &[2048 + 12 + 16]),
                max_mime_type_length: pick_usize(rng, 16, &[128]),
                max_decryptors: pick_usize(rng, 5, &[20]),
            };
            c.v1_transactions_allow_notary_to_duplicate_signer = rng.bool();
            c.preparation_settings = PreparationSettings {
                v2_transactions_permitted: !rng.chance(1, 12),
                max_user_payload_length: match rng.below(4) {
                    0 => 1024 * 1024,
                    _ => 600 + rng.usize_below(6000),
                },
                max_ledger_payload_length: 1024 * 1024 + 10,
                max_child_subintents_per_intent: pick_usize(rng, 4, &[32]),
                max_subintents_per_transaction: pick_usize(rng, 6, &[32]),
                max_blobs: pick_usize(rng, 4, &[64]),
            };
            c.manifest_validation = if rng.chance(1, 4) { ManifestValidationRuleset::BabylonBasicValidator } else { ManifestValidationRuleset::Interpreter(InterpreterValidationRulesetSpecifier::Cuttlefish) };
            c.v2_transactions_allowed = !rng.chance(1, 12);
            c.min_tip_basis_points = if rng.bool() { 0 } else { rng.below(50) as u32 };
            c.max_tip_basis_points = match rng.below(4) {
                0 => 100 * 10000,
                1 => c.min_tip_basis_points,
                2 => u32::MAX,
                _ => c.min_tip_basis_points + rng.below(100) as u32,
            };
            c.max_subintent_depth = rng.usize_below(5);
            c.max_total_signature_validations = pick_usize(rng, 10, &[64, usize::MAX]);
            c.max_total_references = pick_usize(rng, 12, &[512, usize::MAX]);
            (c, "random")
        }
    }
}

pub fn config_to_json(c: &TransactionValidationConfig) -> Value {
    let p = &c.preparation_settings;
    let m = &c.message_validation;
    json!({
        "max_signer_signatures_per_intent": c.max_signer_signatures_per_intent as u64,
        "max_references_per_intent": c.max_references_per_intent as u64,
        "min_tip_percentage": c.min_tip_percentage, "max_tip_percentage": c.max_tip_percentage,
        "max_epoch_range": c.max_epoch_range,
        "max_instructions": c.max_instructions as u64,
        "message": [m.max_plaintext_message_length as u64, m.max_encrypted_message_length as u64, m.max_mime_type_length as u64, m.max_decryptors as u64],
        "v1_dup": c.v1_transactions_allow_notary_to_duplicate_signer,
        "prep": [p.v2_transactions_permitted as u64, p.max_user_payload_length as u64, p.max_ledger_payload_length as u64, p.max_child_subintents_per_intent as u64, p.max_subintents_per_transaction as u64, p.max_blobs as u64],
        "basic_manifest_validator": matches!(c.manifest_validation, ManifestValidationRuleset::BabylonBasicValidator),
        "v2_allowed": c.v2_transactions_allowed,
        "min_tip_bp": c.min_tip_basis_points, "max_tip_bp": c.max_tip_basis_points,
        "max_subintent_depth": c.max_subintent_depth as u64,
        "max_total_signature_validations": c.max_total_signature_validations as u64,
        "max_total_references": c.max_total_references as u64,
    })
}

pub fn config_from_json(v: &Value) -> Option<TransactionValidationConfig> {
    let u = |k: &str| v.get(k).and_then(|x| x.as_u64());
    let arr = |k: &str| -> Option<Vec<u64>> { Some(v.get(k)?.as_array()?.iter().map(|x| x.as_u64().unwrap_or(0)).collect()) };
    let m = arr("message")?;
    let p = arr("prep")?;
    let mut c = TransactionValidationConfig::cuttlefish();
    c.max_signer_signatures_per_intent = u("max_signer_signatures_per_intent")? as usize;
    c.max_references_per_intent = u("max_references_per_intent")? as usize;
    c.min_tip_percentage = u("min_tip_percentage")? as u16;
    c.max_tip_percentage = u("max_tip_percentage")? as u16;
    c.max_epoch_range = u("max_epoch_range")?;
    c.max_instructions = u("max_instructions")? as usize;
    c.message_validation = MessageValidationConfig { max_plaintext_message_length: m[0] as usize, max_encrypted_message_length: m[1] as usize, max_mime_type_length: m[2] as usize, max_decryptors: m[3] as usize };
    c.v1_transactions_allow_notary_to_duplicate_signer = v.get("v1_dup")?.as_bool()?;
    c.preparation_settings = PreparationSettings {
        v2_transactions_permitted: p[0] != 0,
        max_user_payload_length: p[1] as usize,
        max_ledger_payload_length: p[2] as usize,
        max_child_subintents_per_intent: p[3] as usize,
        max_subintents_per_transaction: p[4] as usize,
        max_blobs: p[5] as usize,
    };
    c.manifest_validation = if v.get("basic_manifest_validator")?.as_bool()? { ManifestValidationRuleset::BabylonBasicValidator } else { ManifestValidationRuleset::Interpreter(InterpreterValidationRulesetSpecifier::Cuttlefish) };
    c.v2_transactions_allowed = v.get("v2_allowed")?.as_bool()?;
    c.min_tip_basis_points = u("min_tip_bp")? as u32;
    c.max_tip_basis_points = u("max_tip_bp")? as u32;
    c.max_subintent_depth = u("max_subintent_depth")? as usize;
    c.max_total_signature_validations = u("max_total_signature_validations")? as usize;
    c.max_total_references = u("max_total_references")? as usize;
    Some(c)
}

// ---------------------------------------------------------------------------------------------
// Base spec: comfortably inside every limit of the configuration (where that is possible)
// ---------------------------------------------------------------------------------------------
fn upto(rng: &mut Rng, limit: usize, small: usize) -> usize {
    rng.usize_below(limit.min(small) + 1)
}

fn base_msg(rng: &mut Rng, cfg: &TransactionValidationConfig) -> MsgSpec {
    let m = &cfg.message_validation;
    match rng.below(4) {
        0 | 1 => MsgSpec::None,
        2 => MsgSpec::Plain { mime: upto(rng, m.max_mime_type_length, 12), len: upto(rng, m.max_plaintext_message_length, 40), bytes: rng.bool() },
        _ => {
            if m.max_decryptors == 0 {
                MsgSpec::None
            } else {
                let n = 1 + upto(rng, m.max_decryptors - 1, 3);
                let n_ed = 1 + rng.usize_below(n);
                MsgSpec::Enc { len: upto(rng, m.max_encrypted_message_length, 40), n_ed: n_ed.min(n), n_secp: n - n_ed.min(n) }
            }
        }
    }
}

fn base_intent(rng: &mut Rng, cfg: &TransactionValidationConfig, window: (u64, u64), fixed_instr: usize) -> IntentSpec {
    let room = cfg.max_instructions.saturating_sub(fixed_instr);
    let n_refs = upto(rng, cfg.max_references_per_intent, 3);
    let room_plain = room.saturating_sub(if n_refs > 0 { 1 } else { 0 });
    IntentSpec {
        network: NETWORK_ID,
        start: window.0,
        end: window.1,
        min_ts: None,
        max_ts: None,
        msg: base_msg(rng, cfg),
        n_plain: upto(rng, room_plain, 3),
        n_refs: if room == 0 { 0 } else { n_refs },
        blobs: (0..upto(rng, cfg.preparation_settings.max_blobs, 2)).map(|_| rng.usize_below(24)).collect(),
        n_sigs: upto(rng, cfg.max_signer_signatures_per_intent, 2),
        children: vec![],
    }
}

fn base_window(rng: &mut Rng, cfg: &TransactionValidationConfig) -> (u64, u64) {
    let start = 1000 + rng.below(1000);
    let len = 1 + rng.below(cfg.max_epoch_range.min(40));
    (start, start + len.min(cfg.max_epoch_range).max(1))
}

pub fn base_spec(rng: &mut Rng, cfg: &TransactionValidationConfig, v2: bool, partial: bool) -> TxSpec {
    let notary = KeyId::random(rng);
    let tip_pct = if cfg.max_tip_percentage >= cfg.min_tip_percentage { cfg.min_tip_percentage + rng.below((cfg.max_tip_percentage - cfg.min_tip_percentage) as u64 + 1).min(30) as u16 } else { cfg.min_tip_percentage };
    let tip_bp = if cfg.max_tip_basis_points >= cfg.min_tip_basis_points { cfg.min_tip_basis_points + rng.below((cfg.max_tip_basis_points - cfg.min_tip_basis_points) as u64 + 1).min(3000) as u32 } else { cfg.min_tip_basis_points };
    let window = base_window(rng, cfg);
    let mut spec = TxSpec { v2, partial, tip_pct, tip_bp, notary, notary_is_signatory: false, root: base_intent(rng, cfg, window, 0), subs: vec![], salt: rng.u64() >> 8 };
    if v2 {
        let p = &cfg.preparation_settings;
        let allowed_depth = if partial { cfg.max_subintent_depth.saturating_sub(1) } else { cfg.max_subintent_depth };
        let n_sub = if allowed_depth == 0 || p.max_child_subintents_per_intent == 0 { 0 } else { upto(rng, p.max_subintents_per_transaction, 3) };
        let mut depth: Vec<usize> = vec![];
        let mut kids_of: Vec<usize> = vec![0; n_sub + 1]; // index 0 = root
        for i in 0..n_sub {
            // same window as the root, possibly shifted inside
            let s = base_intent(rng, cfg, window, 1);
            spec.subs.push(s);
            let cands: Vec<usize> = (0..=i).filter(|j| (if *j == 0 { 0 } else { depth[*j - 1] }) < allowed_depth && kids_of[*j] < p.max_child_subintents_per_intent).collect();
            if cands.is_empty() {
                spec.subs.pop();
                break;
            }
            let par = *rng.pick(&cands);
            kids_of[par] += 1;
            depth.push(if par == 0 { 1 } else { depth[par - 1] + 1 });
            if par == 0 {
                spec.root.children.push(i);
            } else {
                spec.subs[par - 1].children.push(i);
            }
        }
        // instruction room: YIELD_TO_CHILD per child
        let n_sub = spec.subs.len();
        for w in 0..=n_sub {
            let fixed = if w == 0 { spec.root.children.len() + partial as usize } else { spec.subs[w - 1].children.len() + 1 };
            let it = spec.intent(w);
            let used = it.n_plain + (it.n_refs > 0) as usize + fixed;
            if used > cfg.max_instructions {
                let over = used - cfg.max_instructions;
                let cut = over.min(it.n_plain);
                it.n_plain -= cut;
                if over > cut {
                    it.n_refs = 0;
                }
            }
        }
        // some timestamps (overlapping)
        for w in 0..=n_sub {
            let it = spec.intent(w);
            if rng.chance(1, 3) {
                it.min_ts = Some(1_000 + rng.below(50) as i64);
            }
            if rng.chance(1, 3) {
                it.max_ts = Some(2_000 + rng.below(50) as i64);
            }
        }
    }
    // totals
    loop {
        let total_refs: usize = (0..spec.n_intents()).map(|w| spec.get(w).n_refs).sum();
        if total_refs as u128 <= cfg.max_total_references as u128 {
            break;
        }
        let w = (0..spec.n_intents()).find(|w| spec.get(*w).n_refs > 0).unwrap();
        spec.intent(w).n_refs -= 1;
    }
    loop {
        let total: usize = (0..spec.n_intents()).map(|w| spec.get(w).n_sigs).sum::<usize>() + !partial as usize;
        if total as u128 <= cfg.max_total_signature_validations as u128 {
            break;
        }
        match (0..spec.n_intents()).find(|w| spec.get(*w).n_sigs > 0) {
            Some(w) => spec.intent(w).n_sigs -= 1,
            None => break,
        }
    }
    spec
}

// ---------------------------------------------------------------------------------------------
// Dimensions
// ---------------------------------------------------------------------------------------------
pub const DIMS_COMMON: [&str; 15] = [
    "epoch-len", "tip-min", "tip-max", "mime", "plaintext", "encrypted", "decryptors", "instructions", "refs-intent", "refs-total", "blobs", "sigs-intent", "sigs-total", "payload",
    "network",
];
pub const DIMS_V2: [&str; 5] = ["children", "subintents", "epoch-overlap", "ts-window", "ts-overlap"];

/// The limit value of a dimension under a config (None: unbounded / not applicable)
fn limit_of(dim: &str, cfg: &TransactionValidationConfig, spec: &TxSpec) -> Option<u128> {
    let p = &cfg.preparation_settings;
    let m = &cfg.message_validation;
    let v = match dim {
        "epoch-len" => cfg.max_epoch_range as u128,
        "tip-min" => if spec.v2 { cfg.min_tip_basis_points as u128 } else { cfg.min_tip_percentage as u128 },
        "tip-max" => if spec.v2 { cfg.max_tip_basis_points as u128 } else { cfg.max_tip_percentage as u128 },
        "mime" => m.max_mime_type_length as u128,
        "plaintext" => m.max_plaintext_message_length as u128,
        "encrypted" => m.max_encrypted_message_length as u128,
        "decryptors" => m.max_decryptors as u128,
        "instructions" => cfg.max_instructions as u128,
        "refs-intent" => cfg.max_references_per_intent as u128,
        "refs-total" => cfg.max_total_references as u128,
        "blobs" => p.max_blobs as u128,
        "sigs-intent" => cfg.max_signer_signatures_per_intent as u128,
        "sigs-total" => cfg.max_total_signature_validations as u128,
        "payload" => p.max_user_payload_length as u128,
        "children" => p.max_child_subintents_per_intent as u128,
        "subintents" => p.max_subintents_per_transaction as u128,
        "depth" => if spec.partial { (cfg.max_subintent_depth as u128).checked_sub(1)? } else { cfg.max_subintent_depth as u128 },
        // lower bounds of 1: windows must overlap / be non-empty by at least one unit
        "epoch-overlap" | "ts-window" | "ts-overlap" => 1,
        // 0 = the required network, anything else = another network
        "network" => 0,
        _ => return None,
    };
    Some(v)
}

/// Largest value of a dimension we are willing to materialise
fn practical_max(dim: &str) -> u128 {
    match dim {
        "epoch-len" => u64::MAX as u128 - 5000,
        "tip-min" | "tip-max" => u32::MAX as u128,
        "mime" | "plaintext" | "encrypted" => 5000,
        "decryptors" => 64,
        "instructions" => 1500,
        "refs-intent" | "refs-total" => 1200,
        "blobs" => 100,
        "sigs-intent" => 2 * KEYS_PER_CURVE as u128,
        "sigs-total" => 100,
        "payload" => 1024 * 1024 + 4,
        "children" | "subintents" => 40,
        "depth" => 6,
        _ => 3,
    }
}

/// Sets dimension `dim` of intent `which` to `value`. None = cannot be expressed.
fn apply(rng: &mut Rng, spec: &mut TxSpec, cfg: &TransactionValidationConfig, dim: &str, which: usize, value: u128) -> Option<()> {
    if value > practical_max(dim) {
        return None;
    }
    let v = value as usize;
    let partial = spec.partial;
    match dim {
        "network" => {
            spec.intent(which).network = if value == 0 { NETWORK_ID } else { NETWORK_ID ^ (1 + rng.below(255) as u8) };
        }
        "epoch-len" => {
            let it = spec.intent(which);
            it.end = it.start.checked_add(value as u64)?;
        }
        "tip-min" | "tip-max" => {
            if spec.v2 {
                spec.tip_bp = u32::try_from(value).ok()?;
            } else {
                spec.tip_pct = u16::try_from(value).ok()?;
            }
        }
        "mime" => {
            let it = spec.intent(which);
            let (len, bytes) = match &it.msg {
                MsgSpec::Plain { len, bytes, .. } => (*len, *bytes),
                _ => (upto(rng, cfg.message_validation.max_plaintext_message_length, 10), rng.bool()),
            };
            it.msg = MsgSpec::Plain { mime: v, len, bytes };
        }
        "plaintext" => {
            let it = spec.intent(which);
            let mime = match &it.msg {
                MsgSpec::Plain { mime, .. } => *mime,
                _ => upto(rng, cfg.message_validation.max_mime_type_length, 10),
            };
            it.msg = MsgSpec::Plain { mime, len: v, bytes: rng.bool() };
        }
        "encrypted" => {
            if cfg.message_validation.max_decryptors == 0 {
                return None;
            }
            spec.intent(which).msg = MsgSpec::Enc { len: v, n_ed: 1, n_secp: 0 };
        }
        "decryptors" => {
            if v == 0 {
                return None; // an encrypted message without decryptors is malformed, not over a limit
            }
            let n_ed = 1 + rng.usize_below(v);
            let len = upto(rng, cfg.message_validation.max_encrypted_message_length, 10);
            spec.intent(which).msg = MsgSpec::Enc { len, n_ed, n_secp: v - n_ed };
        }
        "instructions" => {
            let fixed = if which == 0 { spec.root.children.len() + partial as usize } else { spec.subs[which - 1].children.len() + 1 };
            let it = spec.intent(which);
            let fixed = fixed + (it.n_refs > 0) as usize;
            it.n_plain = v.checked_sub(fixed)?;
        }
        "refs-intent" => {
            let it = spec.intent(which);
            if it.n_refs == 0 && v > 0 {
                // the call itself takes an instruction slot
                it.n_plain = it.n_plain.saturating_sub(1);
            }
            it.n_refs = v;
        }
        "refs-total" => {
            let n = spec.n_intents();
            let mut left = v;
            for w in 0..n {
                let it = spec.intent(w);
                let take = if w == n - 1 { left } else { left.min(rng.usize_below(left + 1)) };
                let take = take.min(cfg.max_references_per_intent);
                if it.n_refs == 0 && take > 0 {
                    it.n_plain = it.n_plain.saturating_sub(1);
                }
                it.n_refs = take;
                left -= take;
            }
            if left > 0 {
                // push the remainder wherever there is per-intent room
                for w in 0..n {
                    let it = spec.intent(w);
                    let room = cfg.max_references_per_intent.saturating_sub(it.n_refs);
                    let take = room.min(left);
                    if it.n_refs == 0 && take > 0 {
                        it.n_plain = it.n_plain.saturating_sub(1);
                    }
                    it.n_refs += take;
                    left -= take;
                }
            }
            if left > 0 {
                return None;
            }
        }
        "blobs" => {
            spec.intent(which).blobs = (0..v).map(|_| rng.usize_below(12)).collect();
        }
        "sigs-intent" => {
            spec.intent(which).n_sigs = v;
        }
        "sigs-total" => {
            let n = spec.n_intents();
            let mut left = v.checked_sub(!partial as usize)?;
            let per = cfg.max_signer_signatures_per_intent.min(2 * KEYS_PER_CURVE);
            for w in 0..n {
                let take = left.min(per);
                spec.intent(w).n_sigs = take;
                left -= take;
            }
            if left > 0 {
                return None;
            }
        }
        "children" => {
            if !spec.v2 {
                return None;
            }
            // `which` gets exactly v leaf children (new leaves appended / surplus removed is not
            // attempted: rebuild that intent's children as fresh leaves)
            let window = (spec.root.start, spec.root.end);
            let old: Vec<usize> = spec.intent(which).children.clone();
            if !old.is_empty() && which != 0 {
                return None; // keep it simple: only intents whose children are rebuilt from scratch
            }
            if which == 0 && !old.is_empty() {
                // drop the whole existing tree
                spec.subs.clear();
                spec.root.children.clear();
            }
            for _ in 0..v {
                let mut leaf = base_intent(rng, cfg, window, 1);
                leaf.n_sigs = 0;
                leaf.n_refs = 0;
                spec.subs.push(leaf);
                let idx = spec.subs.len() - 1;
                spec.intent(which).children.push(idx);
            }
            // make room for the yields
            let it = spec.intent(which);
            it.n_plain = 0;
        }
        "subintents" => {
            if !spec.v2 {
                return None;
            }
            // v subintents arranged breadth first within children/depth limits
            let p = &cfg.preparation_settings;
            let allowed_depth = if partial { cfg.max_subintent_depth.saturating_sub(1) } else { cfg.max_subintent_depth };
            let window = (spec.root.start, spec.root.end);
            spec.subs.clear();
            spec.root.children.clear();
            spec.root.n_plain = 0;
            let mut frontier: Vec<(usize, usize)> = vec![(0, 0)]; // (intent index, depth)
            let mut fi = 0;
            for _ in 0..v {
                while fi < frontier.len() {
                    let (w, d) = frontier[fi];
                    let kids = if w == 0 { spec.root.children.len() } else { spec.subs[w - 1].children.len() };
                    if d < allowed_depth && kids < p.max_child_subintents_per_intent {
                        break;
                    }
                    fi += 1;
                }
                let (w, d) = *frontier.get(fi)?;
                let mut leaf = base_intent(rng, cfg, window, 1);
                leaf.n_sigs = 0;
                leaf.n_refs = 0;
                leaf.n_plain = 0;
                spec.subs.push(leaf);
                let idx = spec.subs.len() - 1;
                spec.intent(w).children.push(idx);
                frontier.push((idx + 1, d + 1));
            }
        }
        "depth" => {
            if !spec.v2 || v == 0 {
                return None;
            }
            let window = (spec.root.start, spec.root.end);
            spec.subs.clear();
            spec.root.children.clear();
            for k in 0..v {
                let mut leaf = base_intent(rng, cfg, window, 2);
                leaf.n_sigs = 0;
                leaf.n_refs = 0;
                spec.subs.push(leaf);
                if k == 0 {
                    spec.root.children.push(0);
                } else {
                    spec.subs[k - 1].children.push(k);
                }
            }
        }
        "epoch-overlap" => {
            // intent `which` (a sub) starts `value` epochs before the root's end
            if !spec.v2 || spec.subs.is_empty() {
                return None;
            }
            let w = if which == 0 { 1 } else { which };
            let (rs, re) = (spec.root.start, spec.root.end);
            let it = spec.intent(w);
            it.start = re.checked_sub(value as u64)?;
            if it.start < rs {
                return None;
            }
            it.end = it.start + 1 + rng.below(cfg.max_epoch_range.min(20));
            // everyone else: the root's window
            for k in 1..spec.n_intents() {
                if k != w {
                    spec.intent(k).start = rs;
                    spec.intent(k).end = re;
                }
            }
        }
        "ts-window" => {
            if !spec.v2 {
                return None;
            }
            let t = 1_500 + rng.below(100) as i64;
            let it = spec.intent(which);
            it.min_ts = Some(t);
            it.max_ts = Some(t + value as i64);
        }
        "payload" => {} // realised by `materialise_with_payload`
        "ts-overlap" => {
            if !spec.v2 || spec.subs.is_empty() {
                return None;
            }
            let w = if which == 0 { 1 } else { which };
            let t = 1_600 + rng.below(100) as i64;
            for k in 0..spec.n_intents() {
                let it = spec.intent(k);
                it.min_ts = None;
                it.max_ts = None;
            }
            spec.root.max_ts = Some(t);
            spec.intent(w).min_ts = Some(t - value as i64);
        }
        _ => return None,
    }
    Some(())
}

// ---------------------------------------------------------------------------------------------
// Execution of one case
// ---------------------------------------------------------------------------------------------
pub struct Outcome {
    pub accepted: bool,
    pub class: String,
    /// returned overall validity (start, end, min_ts, max_ts) for accepted V2
    pub overall: Option<(u64, u64, Option<i64>, Option<i64>)>,
    /// the executable's ranges
    pub exec: Option<(Option<(u64, u64)>, Option<(Option<i64>, Option<i64>)>)>,
}

fn exec_ranges(e: &ExecutableTransaction) -> (Option<(u64, u64)>, Option<(Option<i64>, Option<i64>)>) {
    (
        e.overall_epoch_range().map(|r| (r.start_epoch_inclusive.number(), r.end_epoch_exclusive.number())),
        e.overall_proposer_timestamp_range().map(|r| (r.start_timestamp_inclusive.map(|t| t.seconds_since_unix_epoch), r.end_timestamp_exclusive.map(|t| t.seconds_since_unix_epoch))),
    )
}

fn overall_of(o: &OverallValidityRangeV2) -> (u64, u64, Option<i64>, Option<i64>) {
    (
        o.epoch_range.start_epoch_inclusive.number(),
        o.epoch_range.end_epoch_exclusive.number(),
        o.proposer_timestamp_range.start_timestamp_inclusive.map(|t| t.seconds_since_unix_epoch),
        o.proposer_timestamp_range.end_timestamp_exclusive.map(|t| t.seconds_since_unix_epoch),
    )
}

pub fn validate_user(raw: &[u8], validator: &TransactionValidator) -> Outcome {
    let raw = RawNotarizedTransaction::from_slice(raw);
    match raw.validate(validator) {
        Ok(ValidatedUserTransaction::V1(v)) => {
            let e = v.create_executable();
            Outcome { accepted: true, class: "accepted".into(), overall: None, exec: Some(exec_ranges(&e)) }
        }
        Ok(ValidatedUserTransaction::V2(v)) => {
            let overall = overall_of(&v.overall_validity_range);
            let e = v.create_executable();
            Outcome { accepted: true, class: "accepted".into(), overall: Some(overall), exec: Some(exec_ranges(&e)) }
        }
        Err(e) => Outcome { accepted: false, class: err_class(&e), overall: None, exec: None },
    }
}

pub fn validate_partial(raw: &[u8], validator: &TransactionValidator) -> Outcome {
    let raw = RawSignedPartialTransaction::from_slice(raw);
    match PreparedSignedPartialTransactionV2::prepare(&raw, validator.preparation_settings()) {
        Err(e) => Outcome { accepted: false, class: prepare_err_class(&e), overall: None, exec: None },
        Ok(p) => match p.validate(validator) {
            Ok(v) => Outcome { accepted: true, class: "accepted".into(), overall: Some(overall_of(&v.overall_validity_range)), exec: None },
            Err(e) => Outcome { accepted: false, class: err_class(&e), overall: None, exec: None },
        },
    }
}

pub struct Case {
    pub raw: Vec<u8>,
    pub facts: TxFacts,
    pub kind: &'static str, // "v1" | "v2" | "partial"
    pub depths: Vec<usize>,
}

pub fn materialise(rng: &mut Rng, spec: &TxSpec) -> Case {
    let depths = spec.depths();
    if !spec.v2 {
        let tx = build_v1_from(rng, spec);
        let raw = tx.to_raw().expect("encode v1").to_vec();
        let facts = facts_v1(&tx, raw.len());
        Case { raw, facts, kind: "v1", depths }
    } else {
        match build_v2_from(rng, spec) {
            BuiltV2::Notarized(tx) => {
                let raw = tx.to_raw().expect("encode v2").to_vec();
                let facts = facts_v2(&tx, raw.len(), &depths);
                Case { raw, facts, kind: "v2", depths }
            }
            BuiltV2::Partial(tx) => {
                let raw = tx.to_raw().expect("encode partial").to_vec();
                let facts = facts_partial(&tx, raw.len(), &depths);
                Case { raw, facts, kind: "partial", depths }
            }
        }
    }
}

/// Pads blob 0 of the root until the payload has exactly `target` bytes.
fn materialise_with_payload(rng: &mut Rng, spec: &mut TxSpec, target: usize) -> Option<Case> {
    if spec.root.blobs.is_empty() {
        spec.root.blobs.push(0);
    }
    let seed = rng.u64();
    for _ in 0..6 {
        let mut r = Rng::new(seed); // same random content each round, only the padding differs
        let case = materialise(&mut r, spec);
        let len = case.raw.len();
        if len == target {
            return Some(case);
        }
        let cur = spec.root.blobs[0] as i64;
        let next = cur + target as i64 - len as i64;
        if next < 0 {
            return None;
        }
        spec.root.blobs[0] = next as usize;
    }
    None
}

fn check_case(shard: &mut Shard, cfg: &TransactionValidationConfig, cfg_kind: &str, case: &Case, mode: &str, dim: &str, rel: i64) {
    let validator = TransactionValidator::new_with_static_config(*cfg, NETWORK_ID);
    let out = if case.kind == "partial" { validate_partial(&case.raw, &validator) } else { validate_user(&case.raw, &validator) };
    let bad = predicate(&case.facts, cfg, Some(NETWORK_ID));
    shard.eval();
    shard.count(&format!("{mode}:cases"));
    shard.count(&format!("cases:{}", case.kind));
    shard.count(&format!("config:{cfg_kind}"));
    shard.seen("outcomes", &out.class);
    shard.seen("dims", dim);
    let detail = || {
        json!({
            "mode": mode, "dim": dim, "rel": rel, "kind": case.kind, "config": config_to_json(cfg), "raw": hex(&case.raw), "depths": case.depths,
            "outcome": out.class, "predicate_failed": bad,
        })
    };
    if out.accepted {
        shard.count("accepted");
        shard.count(&format!("{mode}:accepted"));
        shard.nontrivial(&(case.kind, dim, rel, "acc", case.facts.intents.len(), case.facts.payload_len));
        // tree depth is C35's clause: here it only excuses rejections
        let bad_limits: Vec<&str> = bad.iter().copied().filter(|b| *b != "too-deep").collect();
        if !bad_limits.is_empty() {
            shard.violation(format!("accepted-outside-limit:{}", bad_limits.join("+")), detail());
        }
        // overall validity window = intersection
        if case.facts.v2 {
            let w = intersection(&case.facts);
            let want = (w.start, w.end, w.min_ts, w.max_ts);
            if out.overall != Some(want) {
                shard.violation("overall-validity-window-is-not-the-intersection", json!({"want": format!("{want:?}"), "got": format!("{:?}", out.overall), "case": detail()}));
            }
            shard.count("window_checks");
            if let Some((er, tr)) = &out.exec {
                if *er != Some((w.start, w.end)) || *tr != Some((w.min_ts, w.max_ts)) {
                    shard.violation("executable-validity-window-is-not-the-intersection", json!({"want": format!("{want:?}"), "got": format!("{:?}", out.exec), "case": detail()}));
                }
            }
            if case.facts.intents.len() > 1 {
                shard.count("window_checks_multi_intent");
            }
        } else if let Some((er, _)) = &out.exec {
            let i = &case.facts.intents[0];
            if *er != Some((i.start, i.end)) {
                shard.violation("executable-epoch-range-differs-from-header", json!({"got": format!("{er:?}"), "case": detail()}));
            }
        }
    } else {
        shard.count("rejected");
        shard.nontrivial(&(case.kind, dim, rel, out.class.as_str(), bad.clone()));
        if bad.is_empty() {
            // within every limit, yet rejected
            let i_over = case.facts.intents.iter().any(|i| i.start.checked_add(cfg.max_epoch_range).is_none());
            if i_over && out.class == "Intent:Header:InvalidEpochRange" {
                shard.count("note:epoch-window-within-limit-rejected-because-start+max-overflows-u64");
            } else if mode == "boundary" {
                shard.violation(format!("boundary:{dim}:within-limits-but-rejected:{}", out.class), detail());
            } else {
                shard.count("random:within_limits_but_rejected");
                shard.seen("random:within_limits_but_rejected_classes", &out.class);
            }
        } else {
            shard.count(&format!("{mode}:rejected_outside"));
            for b in &bad {
                shard.seen("predicate_clauses_failed", b);
            }
        }
    }
    if mode == "boundary" {
        let tag = match rel {
            -1 => "limit-1",
            0 => "limit",
            _ => "limit+1",
        };
        shard.count(&format!("boundary:{dim}:{tag}:{}", if out.accepted { "accepted" } else { "rejected" }));
        if rel == 0 && out.accepted {
            shard.seen("boundary_dims_accepted_at_limit", dim);
        }
        if rel == 1 && !out.accepted && bad.len() == 1 {
            shard.seen("boundary_dims_rejected_above_limit", dim);
        }
    }
    if shard.want_sample() && shard.index == 0 && mode == "boundary" {
        shard.sample(|| json!({"mode": mode, "dim": dim, "rel": rel, "kind": case.kind, "outcome": out.class, "predicate_failed": bad, "payload_len": case.facts.payload_len, "intents": case.facts.intents.len()}));
    }
}

fn pick_kind(rng: &mut Rng) -> (bool, bool) {
    match rng.below(10) {
        0..=3 => (false, false),
        4..=7 => (true, false),
        _ => (true, true),
    }
}

fn dims_for(spec: &TxSpec) -> Vec<&'static str> {
    let mut d: Vec<&'static str> = DIMS_COMMON.to_vec();
    if spec.v2 {
        d.extend_from_slice(&DIMS_V2);
    }
    if spec.partial {
        d.retain(|x| !matches!(*x, "tip-min" | "tip-max" | "payload"));
    }
    d
}

pub fn run(args: &Args) -> i32 {
    let spec = Spec::new(
        "C34",
        "exploration",
        "accepted ⇒ independent predicate over (header fields, message shape, counts, payload length; config) has no failing clause and the V2 overall validity window equals the intersection of all intents' windows; on boundary cases additionally: no failing clause ⇒ accepted (limit accepted, limit+1 rejected)",
    )
    .assume("max_total_signature_validations counts every intent signature plus one notary signature (none for a signed partial transaction)")
    .assume("max_total_references bounds the sum of the per-intent distinct reference counts")
    .assume("epoch windows whose start + max_epoch_range overflows u64 may be rejected although they are short (recorded, not verdict-bearing)")
    .floor("accepted", args.tier.pick(40_000, 300_000))
    .floor("boundary:cases", args.tier.pick(80_000, 600_000))
    .floor("random:rejected_outside", args.tier.pick(15_000, 100_000))
    .floor("window_checks_multi_intent", args.tier.pick(10_000, 80_000))
    .floor("dims_accepted_at_limit_and_rejected_above", 20)
    .explain("Configs: babylon, cuttlefish and random variations of every numeric field. Boundary mode sets one dimension to limit-1/limit/limit+1 on an otherwise comfortably valid V1 / V2 / signed-partial transaction; random mode perturbs 1-3 dimensions near or far beyond their limits.");
    if let Some(path) = &args.replay {
        return replay(args, spec, path);
    }
    let mut report = Report::new(args, spec);
    keys();
    let cap = scaled(args, args.tier.pick(60_000, 1_500_000));
    report.run_shards(34_01, args.threads, Duration::from_secs(budget_secs(args.tier, 45, 600)), |_idx, rng, shard| {
        let mut done = 0;
        while done < cap && !shard.time_up() {
            done += 1;
            let (cfg, cfg_kind) = rand_config(rng);
            let (v2, partial) = pick_kind(rng);
            let base = base_spec(rng, &cfg, v2, partial);
            if rng.chance(3, 5) {
                // ---- boundary mode
                let dims = dims_for(&base);
                let dim = *rng.pick(&dims);
                let which = rng.usize_below(base.n_intents());
                let Some(limit) = limit_of(dim, &cfg, &base) else { continue };
                if dim == "payload" && limit > 20_000 && !rng.chance(1, 60) {
                    // megabyte payloads cost ~1 s per triple: keep them, but rare
                    continue;
                }
                // the three neighbours share the random content (same fork) so that only the
                // dimension differs
                let fork = rng.u64();
                for rel in [-1i64, 0, 1] {
                    let value = limit as i128 + rel as i128;
                    if value < 0 {
                        continue;
                    }
                    // lower bounds: tip-min (limit-1 must be rejected), handled by the predicate
                    let mut spec = base.clone();
                    let mut r = Rng::new(fork);
                    if apply(&mut r, &mut spec, &cfg, dim, which, value as u128).is_none() {
                        shard.count("boundary:not_expressible");
                        continue;
                    }
                    let case = if dim == "payload" {
                        match materialise_with_payload(&mut r, &mut spec, value as usize) {
                            Some(c) => c,
                            None => {
                                shard.count("boundary:payload_not_reachable");
                                continue;
                            }
                        }
                    } else {
                        materialise(&mut r, &spec)
                    };
                    check_case(shard, &cfg, cfg_kind, &case, "boundary", dim, rel);
                }
            } else {
                // ---- random mode
                let mut spec = base.clone();
                let dims = dims_for(&base);
                let k = 1 + rng.usize_below(3);
                let mut first = "none";
                for j in 0..k {
                    let dim = *rng.pick(&dims);
                    if dim == "payload" {
                        continue;
                    }
                    let which = rng.usize_below(spec.n_intents());
                    let Some(limit) = limit_of(dim, &cfg, &spec) else { continue };
                    let value: u128 = match rng.below(6) {
                        0 => rng.below(4) as u128,
                        1 | 2 => (limit as i128 + rng.irange(-2, 3) as i128).max(0) as u128,
                        3 => limit.saturating_mul(2).saturating_add(1),
                        4 => practical_max(dim).min(limit.saturating_add(rng.below(50) as u128)),
                        _ => rng.below(practical_max(dim).min(200) as u64 + 1) as u128,
                    };
                    if apply(rng, &mut spec, &cfg, dim, which, value).is_some() && j == 0 {
                        first = dim;
                    }
                }
                if rng.chance(1, 20) {
                    // epochs near u64::MAX (overflow of start + max_epoch_range)
                    let len = 1 + rng.below(cfg.max_epoch_range.min(1000));
                    let start = u64::MAX - len - rng.below(3);
                    for w in 0..spec.n_intents() {
                        spec.intent(w).start = start;
                        spec.intent(w).end = start + len;
                    }
                    first = "epoch-near-u64-max";
                }
                let case = materialise(rng, &spec);
                check_case(shard, &cfg, cfg_kind, &case, "random", first, 9);
            }
        }
    });
    // dimensions whose limit was seen accepted and whose limit+1 was seen rejected (alone)
    let both = match (report.sets.get("boundary_dims_accepted_at_limit"), report.sets.get("boundary_dims_rejected_above_limit")) {
        (Some(a), Some(b)) => a.intersection(b).count() as u64,
        _ => 0,
    };
    report.counters.insert("dims_accepted_at_limit_and_rejected_above".into(), both);
    report.finish()
}

fn replay(args: &Args, spec: Spec, path: &std::path::Path) -> i32 {
    let mut report = Report::new(args, spec);
    report.spec.floors.clear();
    let doc: Value = serde_json::from_str(&std::fs::read_to_string(path).expect("read replay")).expect("replay json");
    let mut d = doc.get("detail").cloned().unwrap_or(Value::Null);
    if let Some(c) = d.get("case") {
        d = c.clone();
    }
    let cfg = config_from_json(d.get("config").unwrap_or(&Value::Null)).expect("replay: config");
    let raw = unhex(d.get("raw").and_then(|r| r.as_str()).unwrap_or(""));
    let kind = d.get("kind").and_then(|k| k.as_str()).unwrap_or("v1").to_string();
    let depths: Vec<usize> = d.get("depths").and_then(|x| x.as_array()).map(|a| a.iter().map(|x| x.as_u64().unwrap_or(0) as usize).collect()).unwrap_or_default();
    let mode = d.get("mode").and_then(|k| k.as_str()).unwrap_or("random").to_string();
    let dim = d.get("dim").and_then(|k| k.as_str()).unwrap_or("?").to_string();
    let rel = d.get("rel").and_then(|k| k.as_i64()).unwrap_or(9);
    let (facts, kind_s): (TxFacts, &'static str) = match kind.as_str() {
        "v1" => (facts_v1(&manifest_decode::<AnyTransaction>(&raw).ok().and_then(|t| if let AnyTransaction::NotarizedTransactionV1(t) = t { Some(t) } else { None }).expect("replay: decode v1"), raw.len()), "v1"),
        "v2" => (facts_v2(&manifest_decode::<AnyTransaction>(&raw).ok().and_then(|t| if let AnyTransaction::NotarizedTransactionV2(t) = t { Some(t) } else { None }).expect("replay: decode v2"), raw.len(), &depths), "v2"),
        _ => (facts_partial(&manifest_decode::<AnyTransaction>(&raw).ok().and_then(|t| if let AnyTransaction::SignedPartialTransactionV2(t) = t { Some(t) } else { None }).expect("replay: decode partial"), raw.len(), &depths), "partial"),
    };
    let case = Case { raw, facts, kind: kind_s, depths };
    let mut shard = Shard::new(0, "C34", args.tier, std::time::Instant::now() + Duration::from_secs(60));
    let dim_s: &'static str = Box::leak(dim.into_boxed_str());
    let mode_s: &'static str = if mode == "boundary" { "boundary" } else { "random" };
    check_case(&mut shard, &cfg, "replay", &case, mode_s, dim_s, rel);
    println!("REPLAY C34: outcomes={:?} predicate_failed={:?} violations={}", shard.sets.get("outcomes"), predicate(&case.facts, &cfg, Some(NETWORK_ID)), shard.violations.len());
    shard.nontrivial(&1u8);
    shard.nontrivial(&2u8);
    report.merge(shard);
    report.finish()
}
