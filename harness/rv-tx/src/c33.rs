//! C33: only valid signatures authorize a transaction.
//!
//! The harness owns every private key (`gen::keys`) and decides, per signature slot, whether the
//! signature is honest (right key, right hash - the hash being computed by the *reference* hash
//! model, not by `prepare`) or forged in a specific way. From that ground truth:
//!
//!  accepted ⇒ * the notary slot was honest (or differs from honest only in the Secp256k1
//!               recovery id, which is not part of the (r,s) signature being verified),
//!             * every Ed25519 slot was honest,
//!             * per intent the signer keys handed out are exactly: the honest slots' keys, plus
//!               (for forged Secp256k1 slots, whose "public key" is whatever the signature
//!               recovers to) keys that are *not* harness keys - at most one per forged slot -,
//!               plus the notary key iff notary_is_signatory (root only); no key twice,
//!             * every signature verifies (non-recovering verify path) over the reference hash
//!               of the intent / signed intent it is attached to, under the key at the same
//!               position of the signer list,
//!             * the executable's initial proofs are exactly the signer keys' badges.
//!
//!  byte mutation of an accepted clean transaction: rejected, or intent hash, subintent hashes,
//!  signed-intent hash and all signer sets are unchanged.
use crate::gen::*;
use crate::refhash;
use radix_common::prelude::*;
use radix_transactions::prelude::*;
use radix_transactions::validation::*;
use rv_common::*;
use serde_json::{json, Value};
use std::time::Duration;

/// The 8 small-order points of Curve25519 in Edwards form (canonical encodings first: order 1, 2,
/// 4, 4, 8, 8, 8, 8), followed by their non-canonical encodings (x = 0 with the sign bit set,
/// y = p and y = p + 1). No private key exists for any of them.
pub const SMALL_ORDER: [&str; 14] = [
    "0100000000000000000000000000000000000000000000000000000000000000",
    "ecffffffffffffffffffffffffffffffffffffffffffffffffffffffffffff7f",
    "0000000000000000000000000000000000000000000000000000000000000000",
    "0000000000000000000000000000000000000000000000000000000000000080",
    "26e8958fc2b227b045c3f489f2ef98f0d5dfac05d3c63339b13802886d53fc05",
    "26e8958fc2b227b045c3f489f2ef98f0d5dfac05d3c63339b13802886d53fc85",
    "c7176a703d4dd84fba3c0b760d10670f2a2053fa2c39ccc64ec7fd7792ac037a",
    "c7176a703d4dd84fba3c0b760d10670f2a2053fa2c39ccc64ec7fd7792ac03fa",
    "0100000000000000000000000000000000000000000000000000000000000080",
    "ecffffffffffffffffffffffffffffffffffffffffffffffffffffffffffffff",
    "eeffffffffffffffffffffffffffffffffffffffffffffffffffffffffffff7f",
    "eeffffffffffffffffffffffffffffffffffffffffffffffffffffffffffffff",
    "edffffffffffffffffffffffffffffffffffffffffffffffffffffffffffff7f",
    "edffffffffffffffffffffffffffffffffffffffffffffffffffffffffffffff",
];
/// group order L, little endian
const ED_L: &str = "edd3f55c1a631258d69cf7a2def9de1400000000000000000000000000000010";

fn b32(h: &str) -> [u8; 32] {
    unhex(h).try_into().unwrap()
}

/// A "signature" nobody signed: small-order public key, small-order R, degenerate S
#[derive(Clone, Debug)]
pub struct SmallOrder {
    pub pk: usize,
    pub r: usize,
    pub s_kind: u8, // 0: S = 0, 1: S = 1, 2: S = L, 3: small random
    pub s: [u8; 32],
}

impl SmallOrder {
    pub fn draw(rng: &mut Rng) -> SmallOrder {
        // half "aimed" (an encoding of the neutral element as key, R = neutral, S = 0 - and
        // key = R with S = 0), half free draws from the sets
        let (pk, r, s_kind) = match rng.below(6) {
            0 => (0, 0, 0),
            1 => (*rng.pick(&[0usize, 8, 10, 11]), 0, 0),
            2 => {
                let k = rng.usize_below(SMALL_ORDER.len());
                (k, k, 0)
            }
            _ => (rng.usize_below(SMALL_ORDER.len()), rng.usize_below(SMALL_ORDER.len()), rng.below(4) as u8),
        };
        let mut s = [0u8; 32];
        match s_kind {
            0 => {}
            1 => s[0] = 1,
            2 => s = b32(ED_L),
            _ => {
                s[0] = rng.below(256) as u8;
                s[1] = rng.below(256) as u8;
            }
        }
        SmallOrder { pk, r, s_kind, s }
    }
    pub fn public_key(&self) -> Ed25519PublicKey {
        Ed25519PublicKey(b32(SMALL_ORDER[self.pk]))
    }
    pub fn signature(&self) -> Ed25519Signature {
        let mut b = [0u8; 64];
        b[..32].copy_from_slice(&b32(SMALL_ORDER[self.r]));
        b[32..].copy_from_slice(&self.s);
        Ed25519Signature(b)
    }
    fn tag(&self) -> String {
        format!("pk{}:r{}:s{}", self.pk, self.r, self.s_kind)
    }
}

#[derive(Clone, Debug)]
pub enum Slot {
    Honest(KeyId),
    /// signs another hash: 0 random, 1 the hash of another intent of the same transaction
    /// (signature "swapped between intents"), 2 the right hash with one bit flipped
    WrongHash(KeyId, u8),
    /// Ed25519 only: signature by `signer`, public key field says `claimed`
    EdWrongKey { signer: usize, claimed: usize },
    /// honest signature with one byte of (public key ‖ signature) xored
    Corrupt(KeyId, usize, u8),
    /// Ed25519 slot with a small-order public key and a small-order R
    EdSmallOrder(SmallOrder),
}

impl Slot {
    fn tag(&self) -> String {
        match self {
            Slot::Honest(k) => format!("honest:{}", k.tag()),
            Slot::WrongHash(k, w) => format!("wronghash{w}:{}", k.tag()),
            Slot::EdWrongKey { signer, claimed } => format!("edwrongkey:e{signer}->e{claimed}"),
            Slot::Corrupt(k, i, x) => format!("corrupt:{}@{i}^{x:02x}", k.tag()),
            Slot::EdSmallOrder(so) => format!("edsmallorder:{}", so.tag()),
        }
    }
    fn class(&self) -> &'static str {
        match self {
            Slot::Honest(_) => "honest",
            Slot::WrongHash(k, _) => if k.curve == Curve::Secp { "secp-wrong-hash" } else { "ed-wrong-hash" },
            Slot::EdWrongKey { .. } => "ed-wrong-key",
            Slot::Corrupt(k, _, _) => if k.curve == Curve::Secp { "secp-corrupt" } else { "ed-corrupt" },
            Slot::EdSmallOrder(_) => "ed-small-order-key",
        }
    }
    fn is_honest(&self) -> bool {
        matches!(self, Slot::Honest(_))
    }
    /// forged Secp256k1 slot: may legitimately recover to some non-harness key
    fn is_forged_secp(&self) -> bool {
        match self {
            Slot::WrongHash(k, _) | Slot::Corrupt(k, _, _) => k.curve == Curve::Secp,
            _ => false,
        }
    }
    fn is_forged_ed(&self) -> bool {
        !self.is_honest() && !self.is_forged_secp()
    }
}

#[derive(Clone, Debug)]
pub enum NotarySlot {
    Honest,
    /// another key of the same curve signs the right hash
    WrongKey(KeyId),
    /// 0 random hash, 1 the transaction intent hash instead of the signed intent hash, 2 bit flip
    WrongHash(u8),
    /// a key of the other curve signs (signature curve != header key curve)
    CurveMismatch(KeyId),
    Corrupt(usize, u8),
    /// the header's notary key is a small-order Ed25519 point, the signature (small-order R, S)
    EdSmallOrder(SmallOrder),
}

fn wrong_hash(rng: &mut Rng, right: &Hash, other: Option<Hash>, kind: u8) -> Hash {
    match (kind, other) {
        (1, Some(o)) if o != *right => o,
        (2, _) => {
            let mut h = *right;
            h.0[rng.usize_below(32)] ^= 1 << rng.below(8);
            h
        }
        _ => Hash(rng.bytes(32).try_into().unwrap()),
    }
}

fn make_sig(rng: &mut Rng, slot: &Slot, right: &Hash, other: Option<Hash>) -> IntentSignatureV1 {
    let s = match slot {
        Slot::Honest(k) => k.sign_with_pk(right),
        Slot::WrongHash(k, w) => k.sign_with_pk(&wrong_hash(rng, right, other, *w)),
        Slot::EdWrongKey { signer, claimed } => SignatureWithPublicKeyV1::Ed25519 { public_key: keys().ed[*claimed].1, signature: keys().ed[*signer].0.sign(right) },
        Slot::EdSmallOrder(so) => SignatureWithPublicKeyV1::Ed25519 { public_key: so.public_key(), signature: so.signature() },
        Slot::Corrupt(k, i, x) => match k.sign_with_pk(right) {
            SignatureWithPublicKeyV1::Secp256k1 { mut signature } => {
                signature.0[*i % 65] ^= *x;
                SignatureWithPublicKeyV1::Secp256k1 { signature }
            }
            SignatureWithPublicKeyV1::Ed25519 { mut public_key, mut signature } => {
                let i = *i % 96;
                if i < 32 {
                    public_key.0[i] ^= *x;
                } else {
                    signature.0[i - 32] ^= *x;
                }
                SignatureWithPublicKeyV1::Ed25519 { public_key, signature }
            }
        },
    };
    IntentSignatureV1(s)
}

/// Returns (signature, benign) where benign = differs from honest only in the Secp recovery id.
fn make_notary_sig(rng: &mut Rng, slot: &NotarySlot, notary: KeyId, signed_hash: &Hash, intent_hash: &Hash) -> (SignatureV1, bool) {
    match slot {
        NotarySlot::Honest => (notary.sign_plain(signed_hash), true),
        NotarySlot::WrongKey(k) | NotarySlot::CurveMismatch(k) => (k.sign_plain(signed_hash), false),
        NotarySlot::WrongHash(w) => (notary.sign_plain(&wrong_hash(rng, signed_hash, Some(*intent_hash), *w)), false),
        NotarySlot::EdSmallOrder(so) => (SignatureV1::Ed25519(so.signature()), false),
        NotarySlot::Corrupt(i, x) => match notary.sign_plain(signed_hash) {
            SignatureV1::Secp256k1(mut s) => {
                let i = *i % 65;
                s.0[i] ^= *x;
                let benign = i == 0 && s.0[0] <= 3;
                (SignatureV1::Secp256k1(s), benign)
            }
            SignatureV1::Ed25519(mut s) => {
                s.0[*i % 64] ^= *x;
                (SignatureV1::Ed25519(s), false)
            }
        },
    }
}

fn rand_slots(rng: &mut Rng, clean: bool) -> Vec<Slot> {
    let n = match rng.below(12) {
        0 | 1 => 0,
        2..=8 => 1 + rng.usize_below(4),
        9 | 10 => 5 + rng.usize_below(8),
        _ => 13 + rng.usize_below(4),
    };
    let ks = distinct_keys(rng, n);
    let mut slots: Vec<Slot> = ks.into_iter().map(Slot::Honest).collect();
    if !clean && rng.chance(1, 8) {
        // a keyless "signer" (also as the only signature of the intent)
        let at = rng.usize_below(slots.len() + 1);
        slots.insert(at, Slot::EdSmallOrder(SmallOrder::draw(rng)));
    }
    if clean || slots.is_empty() {
        return slots;
    }
    // forge / duplicate some
    let k = match rng.below(4) {
        0 => 0,
        1 | 2 => 1,
        _ => 2,
    };
    for _ in 0..k {
        let i = rng.usize_below(slots.len());
        let key = match &slots[i] {
            Slot::Honest(k) => *k,
            _ => continue,
        };
        slots[i] = match rng.below(5) {
            0 => Slot::WrongHash(key, rng.below(3) as u8),
            1 => {
                if key.curve == Curve::Ed {
                    let mut other = rng.usize_below(KEYS_PER_CURVE);
                    if other == key.idx {
                        other = (other + 1) % KEYS_PER_CURVE;
                    }
                    if rng.bool() { Slot::EdWrongKey { signer: key.idx, claimed: other } } else { Slot::EdWrongKey { signer: other, claimed: key.idx } }
                } else {
                    Slot::WrongHash(key, 0)
                }
            }
            2 | 3 => Slot::Corrupt(key, rng.usize_below(96), 1 << rng.below(8)),
            _ => {
                // duplicate signer: the same key again somewhere else
                let at = rng.usize_below(slots.len() + 1);
                slots.insert(at, Slot::Honest(key));
                continue;
            }
        };
    }
    slots
}

fn rand_notary_slot(rng: &mut Rng, notary: KeyId, clean: bool) -> NotarySlot {
    if clean || rng.chance(2, 3) {
        return NotarySlot::Honest;
    }
    match rng.below(5) {
        0 => {
            let mut k = KeyId { curve: notary.curve, idx: rng.usize_below(KEYS_PER_CURVE) };
            if k == notary {
                k.idx = (k.idx + 1) % KEYS_PER_CURVE;
            }
            NotarySlot::WrongKey(k)
        }
        1 => NotarySlot::WrongHash(rng.below(3) as u8),
        2 => NotarySlot::CurveMismatch(KeyId { curve: if notary.curve == Curve::Secp { Curve::Ed } else { Curve::Secp }, idx: rng.usize_below(KEYS_PER_CURVE) }),
        _ => NotarySlot::Corrupt(if rng.chance(1, 4) { 0 } else { rng.usize_below(65) }, if rng.bool() { 1 << rng.below(8) } else { 1 + rng.below(3) as u8 }),
    }
}

/// Orderable form of a public key (curve tag + bytes)
pub fn pkb(k: &PublicKey) -> Vec<u8> {
    match k {
        PublicKey::Secp256k1(p) => [&[0u8][..], &p.0[..]].concat(),
        PublicKey::Ed25519(p) => [&[1u8][..], &p.0[..]].concat(),
    }
}

/// Ground truth of one built transaction
pub struct Truth {
    pub kind: &'static str, // v1 | v2 | partial
    pub raw: Vec<u8>,
    /// root first
    pub slots: Vec<Vec<Slot>>,
    pub notary: Option<(KeyId, NotarySlot, bool /*benign*/, bool /*is_signatory*/)>,
    /// reference hashes: what each intent's signatures must be over (root first), signed intent
    pub intent_hashes: Vec<Hash>,
    pub signed_hash: Option<Hash>,
    pub sigs: Vec<Vec<IntentSignatureV1>>,
    pub notary_sig: Option<SignatureV1>,
    pub v1_allow_dup: bool,
    /// header changed after signing (signatures kept)
    pub altered: bool,
}

impl Truth {
    fn describe(&self) -> Value {
        json!({
            "kind": self.kind,
            "raw": hex(&self.raw),
            "slots": self.slots.iter().map(|s| s.iter().map(|x| x.tag()).collect::<Vec<_>>()).collect::<Vec<_>>(),
            "notary": self.notary.as_ref().map(|(k, s, benign, sig)| format!("{} {:?} benign={} signatory={}", k.tag(), s, benign, sig)),
            "v1_allow_notary_to_duplicate_signer": self.v1_allow_dup,
        })
    }
    fn must_reject(&self) -> Vec<String> {
        let mut r = vec![];
        if let Some((_, slot, benign, _)) = &self.notary {
            if !matches!(slot, NotarySlot::Honest) && !*benign {
                r.push(match slot {
                    NotarySlot::EdSmallOrder(_) => "notary-ed-small-order-key".to_string(),
                    _ => format!("notary-{}", variant_name(slot)),
                });
            }
        }
        for s in self.slots.iter().flatten() {
            if s.is_forged_ed() {
                r.push(s.class().to_string());
            }
        }
        r.sort();
        r.dedup();
        r
    }
    fn has_small_order(&self) -> bool {
        self.slots.iter().flatten().any(|s| matches!(s, Slot::EdSmallOrder(_))) || matches!(&self.notary, Some((_, NotarySlot::EdSmallOrder(_), _, _)))
    }
    fn clean(&self) -> bool {
        self.slots.iter().flatten().all(|s| s.is_honest()) && self.notary.as_ref().map(|(_, s, _, _)| matches!(s, NotarySlot::Honest)).unwrap_or(true) && !self.has_duplicates()
    }
    fn has_duplicates(&self) -> bool {
        for (w, s) in self.slots.iter().enumerate() {
            let mut seen = BTreeSet::new();
            for x in s {
                if let Slot::Honest(k) = x {
                    if !seen.insert(*k) {
                        return true;
                    }
                }
            }
            if w == 0 {
                if let Some((k, _, _, true)) = &self.notary {
                    if seen.contains(k) {
                        return true;
                    }
                }
            }
        }
        false
    }
}

pub fn build_case(rng: &mut Rng, clean: bool, small: bool) -> Truth {
    let notary = KeyId::random(rng);
    let max_instr = if small { 2 } else { 6 };
    match rng.below(10) {
        0..=4 => {
            let mut intent = rand_intent_v1(rng, notary, max_instr);
            let so_notary = if !clean && rng.chance(1, 10) { Some(SmallOrder::draw(rng)) } else { None };
            if let Some(so) = &so_notary {
                intent.header.notary_public_key = PublicKey::Ed25519(so.public_key());
            }
            if small {
                intent.blobs = BlobsV1 { blobs: vec![] };
                intent.message = MessageV1::None;
            }
            let mut slots = rand_slots(rng, clean);
            if small {
                slots.truncate(2);
            }
            let is_sig = intent.header.notary_is_signatory;
            if is_sig && !clean && rng.chance(1, 4) {
                slots.push(Slot::Honest(notary)); // notary is signatory and also signs
            }
            if clean {
                slots.retain(|s| !matches!(s, Slot::Honest(k) if *k == notary && is_sig));
            }
            let ih = refhash::intent_v1(&intent);
            let sigs: Vec<IntentSignatureV1> = slots.iter().map(|s| make_sig(rng, s, &ih, None)).collect();
            let signed_intent = SignedIntentV1 { intent, intent_signatures: IntentSignaturesV1 { signatures: sigs.clone() } };
            let (_, sh) = refhash::signed_intent_v1(&signed_intent);
            let nslot = match so_notary {
                Some(so) => NotarySlot::EdSmallOrder(so),
                None => rand_notary_slot(rng, notary, clean),
            };
            let (nsig, benign) = make_notary_sig(rng, &nslot, notary, &sh, &ih);
            let tx = NotarizedTransactionV1 { signed_intent, notary_signature: NotarySignatureV1(nsig) };
            Truth { kind: "v1", raw: tx.to_raw().unwrap().to_vec(), slots: vec![slots], notary: Some((notary, nslot, benign, is_sig)), intent_hashes: vec![ih], signed_hash: Some(sh), sigs: vec![sigs], notary_sig: Some(nsig), v1_allow_dup: rng.bool(), altered: false }
        }
        k => {
            let partial = k == 9;
            let n_sub = if small { rng.usize_below(2) } else { rng.usize_below(4) };
            let mut ti = rand_tx_intent_v2(rng, notary, n_sub, if partial { 2 } else { 3 }, max_instr);
            let so_notary = if !clean && !partial && rng.chance(1, 10) { Some(SmallOrder::draw(rng)) } else { None };
            if let Some(so) = &so_notary {
                ti.transaction_header.notary_public_key = PublicKey::Ed25519(so.public_key());
            }
            let (root_hash, sub_hashes, partial_tx) = if partial {
                // re-use the generated tree: the root core becomes a root subintent (it needs a final YIELD_TO_PARENT)
                let mut core = ti.root_intent_core.clone();
                core.instructions.0.push(InstructionV2::YieldToParent(radix_transactions::manifest::YieldToParent::empty()));
                let p = PartialTransactionV2 { root_subintent: SubintentV2 { intent_core: core }, non_root_subintents: ti.non_root_subintents.clone() };
                let (_, rh, hs) = refhash::partial_v2(&p);
                (rh, hs, Some(p))
            } else {
                let (ih, hs) = refhash::tx_intent_v2(&ti);
                (ih, hs, None)
            };
            let is_sig = ti.transaction_header.notary_is_signatory && !partial;
            let mut all_slots = vec![];
            let mut all_sigs = vec![];
            let mut root_slots = rand_slots(rng, clean);
            if small {
                root_slots.truncate(1);
            }
            if is_sig && !clean && rng.chance(1, 4) {
                root_slots.push(Slot::Honest(notary));
            }
            if clean {
                root_slots.retain(|s| !matches!(s, Slot::Honest(k) if *k == notary && is_sig));
            }
            let other_for_root = sub_hashes.first().copied();
            let root_sigs: Vec<IntentSignatureV1> = root_slots.iter().map(|s| make_sig(rng, s, &root_hash, other_for_root)).collect();
            all_slots.push(root_slots);
            all_sigs.push(root_sigs.clone());
            let mut batches = vec![];
            for (i, sh) in sub_hashes.iter().enumerate() {
                let mut slots = rand_slots(rng, clean);
                slots.truncate(if small { 1 } else { 6 });
                let other = if i + 1 < sub_hashes.len() { Some(sub_hashes[i + 1]) } else { Some(root_hash) };
                let sigs: Vec<IntentSignatureV1> = slots.iter().map(|s| make_sig(rng, s, sh, other)).collect();
                batches.push(IntentSignaturesV2 { signatures: sigs.clone() });
                all_slots.push(slots);
                all_sigs.push(sigs);
            }
            let mut intent_hashes = vec![root_hash];
            intent_hashes.extend(sub_hashes.iter().copied());
            if let Some(p) = partial_tx {
                let tx = SignedPartialTransactionV2 { partial_transaction: p, root_subintent_signatures: IntentSignaturesV2 { signatures: root_sigs }, non_root_subintent_signatures: NonRootSubintentSignaturesV2 { by_subintent: batches } };
                Truth { kind: "partial", raw: tx.to_raw().unwrap().to_vec(), slots: all_slots, notary: None, intent_hashes, signed_hash: None, sigs: all_sigs, notary_sig: None, v1_allow_dup: true, altered: false }
            } else {
                let signed = SignedTransactionIntentV2 { transaction_intent: ti, transaction_intent_signatures: IntentSignaturesV2 { signatures: root_sigs }, non_root_subintent_signatures: NonRootSubintentSignaturesV2 { by_subintent: batches } };
                let (_, sh, _) = refhash::signed_tx_intent_v2(&signed);
                let nslot = match so_notary {
                    Some(so) => NotarySlot::EdSmallOrder(so),
                    None => rand_notary_slot(rng, notary, clean),
                };
                let (nsig, benign) = make_notary_sig(rng, &nslot, notary, &sh, &root_hash);
                let tx = NotarizedTransactionV2 { signed_transaction_intent: signed, notary_signature: NotarySignatureV2(nsig) };
                Truth { kind: "v2", raw: tx.to_raw().unwrap().to_vec(), slots: all_slots, notary: Some((notary, nslot, benign, is_sig)), intent_hashes, signed_hash: Some(sh), sigs: all_sigs, notary_sig: Some(nsig), v1_allow_dup: true, altered: false }
            }
        }
    }
}

/// The mutation angle of the small-order forgery: a transaction whose notary key is a small-order
/// point (root signatures: none / only another small-order slot / honest ones; subintents signed
/// honestly), and the same transaction with the nonce / intent discriminator or the tip altered
/// while every signature is kept. Neither has an honest notary signature.
pub fn small_order_notary_pair(rng: &mut Rng) -> (Truth, Truth) {
    let dummy = KeyId::random(rng);
    let so = SmallOrder::draw(rng);
    let root_slots: Vec<Slot> = match rng.below(4) {
        0 | 1 => vec![],
        2 => vec![Slot::EdSmallOrder(SmallOrder::draw(rng))],
        _ => {
            let n = 1 + rng.usize_below(2);
            distinct_keys(rng, n).into_iter().map(Slot::Honest).collect()
        }
    };
    let nslot = NotarySlot::EdSmallOrder(so.clone());
    let nsig = SignatureV1::Ed25519(so.signature());
    if rng.bool() {
        let mut intent = rand_intent_v1(rng, dummy, 4);
        intent.header.notary_public_key = PublicKey::Ed25519(so.public_key());
        let is_sig = intent.header.notary_is_signatory;
        let ih = refhash::intent_v1(&intent);
        let sigs: Vec<IntentSignatureV1> = root_slots.iter().map(|s| make_sig(rng, s, &ih, None)).collect();
        let allow = rng.bool();
        let mk = |intent: IntentV1, altered: bool| {
            let ih = refhash::intent_v1(&intent);
            let signed_intent = SignedIntentV1 { intent, intent_signatures: IntentSignaturesV1 { signatures: sigs.clone() } };
            let (_, sh) = refhash::signed_intent_v1(&signed_intent);
            let tx = NotarizedTransactionV1 { signed_intent, notary_signature: NotarySignatureV1(nsig) };
            Truth { kind: "v1", raw: tx.to_raw().unwrap().to_vec(), slots: vec![root_slots.clone()], notary: Some((dummy, nslot.clone(), false, is_sig)), intent_hashes: vec![ih], signed_hash: Some(sh), sigs: vec![sigs.clone()], notary_sig: Some(nsig), v1_allow_dup: allow, altered }
        };
        let mut other = intent.clone();
        if rng.chance(2, 3) {
            other.header.nonce = other.header.nonce.wrapping_add(1 + rng.below(1000) as u32);
        } else {
            other.header.tip_percentage = other.header.tip_percentage.wrapping_add(1 + rng.below(50) as u16);
        }
        (mk(intent, false), mk(other, true))
    } else {
        let n_sub = rng.usize_below(3);
        let mut ti = rand_tx_intent_v2(rng, dummy, n_sub, 3, 4);
        ti.transaction_header.notary_public_key = PublicKey::Ed25519(so.public_key());
        let is_sig = ti.transaction_header.notary_is_signatory;
        let (root_hash, sub_hashes) = refhash::tx_intent_v2(&ti);
        let root_sigs: Vec<IntentSignatureV1> = root_slots.iter().map(|s| make_sig(rng, s, &root_hash, None)).collect();
        let mut all_slots = vec![root_slots.clone()];
        let mut all_sigs = vec![root_sigs.clone()];
        let mut batches = vec![];
        for sh in &sub_hashes {
            let n = rng.usize_below(3);
            let slots: Vec<Slot> = distinct_keys(rng, n).into_iter().map(Slot::Honest).collect();
            let sigs: Vec<IntentSignatureV1> = slots.iter().map(|s| make_sig(rng, s, sh, None)).collect();
            batches.push(IntentSignaturesV2 { signatures: sigs.clone() });
            all_slots.push(slots);
            all_sigs.push(sigs);
        }
        let mk = |ti: TransactionIntentV2, altered: bool| {
            let signed = SignedTransactionIntentV2 { transaction_intent: ti, transaction_intent_signatures: IntentSignaturesV2 { signatures: root_sigs.clone() }, non_root_subintent_signatures: NonRootSubintentSignaturesV2 { by_subintent: batches.clone() } };
            let (rh, sh, subs) = refhash::signed_tx_intent_v2(&signed);
            let mut intent_hashes = vec![rh];
            intent_hashes.extend(subs);
            let tx = NotarizedTransactionV2 { signed_transaction_intent: signed, notary_signature: NotarySignatureV2(nsig) };
            Truth { kind: "v2", raw: tx.to_raw().unwrap().to_vec(), slots: all_slots.clone(), notary: Some((dummy, nslot.clone(), false, is_sig)), intent_hashes, signed_hash: Some(sh), sigs: all_sigs.clone(), notary_sig: Some(nsig), v1_allow_dup: true, altered }
        };
        let mut other = ti.clone();
        if rng.chance(2, 3) {
            other.root_intent_core.header.intent_discriminator = other.root_intent_core.header.intent_discriminator.wrapping_add(1 + rng.below(1000));
        } else {
            other.transaction_header.tip_basis_points = other.transaction_header.tip_basis_points.wrapping_add(1 + rng.below(50) as u32);
        }
        (mk(ti, false), mk(other, true))
    }
}

/// What validation handed out: hashes + signer lists (root first) + proofs of the executable
pub struct Accepted {
    pub intent_hash: Hash,
    pub signed_hash: Option<Hash>,
    pub payload_hash: Hash,
    pub sub_hashes: Vec<Hash>,
    pub signers: Vec<Vec<PublicKey>>,
    pub proofs: Option<Vec<BTreeSet<NonFungibleGlobalId>>>,
}

pub fn validate_raw(kind: &str, raw: &[u8], validator: &TransactionValidator) -> Result<Accepted, String> {
    if kind == "partial" {
        let raw = RawSignedPartialTransaction::from_slice(raw);
        let p = PreparedSignedPartialTransactionV2::prepare(&raw, validator.preparation_settings()).map_err(|e| prepare_err_class(&e))?;
        let v = p.validate(validator).map_err(|e| err_class(&e))?;
        let mut signers = vec![v.root_subintent_info.signer_keys.iter().copied().collect::<Vec<_>>()];
        signers.extend(v.non_root_subintents_info.iter().map(|i| i.signer_keys.iter().copied().collect::<Vec<_>>()));
        return Ok(Accepted {
            intent_hash: v.prepared.subintent_hash().0,
            signed_hash: None,
            payload_hash: v.prepared.summary.hash,
            sub_hashes: v.prepared.non_root_subintent_hashes().map(|h| h.0).collect(),
            signers,
            proofs: None,
        });
    }
    let raw = RawNotarizedTransaction::from_slice(raw);
    let v = raw.validate(validator).map_err(|e| err_class(&e))?;
    let hashes = v.hashes();
    let signers = match &v {
        ValidatedUserTransaction::V1(t) => vec![t.signer_keys.iter().copied().collect::<Vec<_>>()],
        ValidatedUserTransaction::V2(t) => {
            let mut s = vec![t.transaction_intent_info.signer_keys.iter().copied().collect::<Vec<_>>()];
            s.extend(t.non_root_subintents_info.iter().map(|i| i.signer_keys.iter().copied().collect::<Vec<_>>()));
            s
        }
    };
    let exe = v.create_executable();
    let proofs = exe.all_intents().map(|i| i.auth_zone_init.initial_non_fungible_id_proofs.clone()).collect();
    Ok(Accepted {
        intent_hash: hashes.transaction_intent_hash.0,
        signed_hash: Some(hashes.signed_transaction_intent_hash.0),
        payload_hash: hashes.notarized_transaction_hash.0,
        sub_hashes: hashes.non_root_subintent_hashes.iter().map(|h| h.0).collect(),
        signers,
        proofs: Some(proofs),
    })
}

fn validator_for(t: &Truth) -> TransactionValidator {
    let mut cfg = TransactionValidationConfig::latest();
    cfg.v1_transactions_allow_notary_to_duplicate_signer = t.v1_allow_dup;
    TransactionValidator::new_with_static_config(cfg, NETWORK_ID)
}

/// All checks of the "accepted ⇒" direction. Returns violations (signature, detail).
pub fn check_accept(t: &Truth, a: &Accepted) -> Vec<(String, Value)> {
    let mut v = vec![];
    let must = t.must_reject();
    if !must.is_empty() {
        let lead = must.iter().find(|m| m.contains("small-order")).unwrap_or(&must[0]);
        v.push((format!("accepted-with-invalid-signature:{lead}{}", if t.altered { ":header-altered-after-signing" } else { "" }), json!({"reasons": must, "case": t.describe()})));
        if t.has_small_order() {
            // nobody holds a key for these slots: the remaining clauses (which speak about
            // harness keys) do not apply
            return v;
        }
    }
    // hashes the signatures are meant to cover
    if a.intent_hash != t.intent_hashes[0] || a.sub_hashes != t.intent_hashes[1..] || (t.signed_hash.is_some() && a.signed_hash != t.signed_hash) {
        v.push(("validated-hashes-differ-from-reference-model".to_string(), json!({"case": t.describe()})));
    }
    if a.signers.len() != t.slots.len() {
        v.push(("signer-list-count-differs-from-intent-count".to_string(), json!({"case": t.describe()})));
        return v;
    }
    for (w, slots) in t.slots.iter().enumerate() {
        let got = &a.signers[w];
        let got_set: BTreeSet<Vec<u8>> = got.iter().map(pkb).collect();
        if got_set.len() != got.len() {
            v.push(("signer-list-has-duplicates".to_string(), json!({"intent": w, "case": t.describe()})));
        }
        let mut want: BTreeSet<Vec<u8>> = slots.iter().filter_map(|s| if let Slot::Honest(k) = s { Some(pkb(&k.public())) } else { None }).collect();
        if w == 0 {
            if let Some((k, _, _, true)) = &t.notary {
                want.insert(pkb(&k.public()));
            }
        }
        let forged_secp = slots.iter().filter(|s| s.is_forged_secp()).count();
        // harness keys handed out must be exactly the honest ones
        let got_known: BTreeSet<Vec<u8>> = got.iter().filter(|k| key_id_of(k).is_some()).map(pkb).collect();
        let unknown: Vec<PublicKey> = got.iter().copied().filter(|k| key_id_of(k).is_none()).collect();
        if got_known != want {
            let extra: Vec<String> = got_known.difference(&want).map(|k| hex(k)).collect();
            let missing: Vec<String> = want.difference(&got_known).map(|k| hex(k)).collect();
            let sig = if !extra.is_empty() { "signer-set-contains-key-that-did-not-sign" } else { "signer-set-misses-key-that-signed" };
            v.push((sig.to_string(), json!({"intent": w, "extra": extra, "missing": missing, "case": t.describe()})));
        }
        if unknown.len() > forged_secp || unknown.iter().any(|k| !matches!(k, PublicKey::Secp256k1(_))) {
            v.push(("signer-set-contains-unexplained-key".to_string(), json!({"intent": w, "unknown": unknown.iter().map(|k| format!("{k:?}")).collect::<Vec<_>>(), "case": t.describe()})));
        }
        // positional cross-check with the non-recovering verify path over the reference hash
        for (i, sig) in t.sigs[w].iter().enumerate() {
            // forged Secp256k1 slots recover to a foreign key; the non-recovering verify additionally
            // insists on low-S signatures, which a corrupted signature need not be
            if !slots[i].is_honest() {
                continue;
            }
            let Some(key) = got.get(i) else { break };
            // (position i of the list is slot i unless an earlier duplicate was merged, in which
            // case the transaction is not accepted anyway)
            if !verify(&t.intent_hashes[w], key, &sig.0.signature()) {
                v.push(("signature-does-not-verify-over-reference-hash".to_string(), json!({"intent": w, "slot": i, "case": t.describe()})));
            }
        }
        // proofs of the executable
        if let Some(proofs) = &a.proofs {
            let want_proofs: BTreeSet<NonFungibleGlobalId> = got.iter().map(NonFungibleGlobalId::from_public_key).collect();
            if proofs.get(w) != Some(&want_proofs) {
                v.push(("executable-proofs-differ-from-signer-set".to_string(), json!({"intent": w, "case": t.describe()})));
            }
        }
    }
    if let (Some((k, _, _, _)), Some(sig), Some(sh)) = (&t.notary, &t.notary_sig, &t.signed_hash) {
        if !verify(sh, &k.public(), sig) {
            v.push(("notary-signature-does-not-verify-over-reference-hash".to_string(), json!({"case": t.describe()})));
        }
    }
    v
}

fn run_case(shard: &mut Shard, t: &Truth) -> Option<Accepted> {
    let validator = validator_for(t);
    let r = validate_raw(t.kind, &t.raw, &validator);
    shard.eval();
    shard.count(&format!("cases:{}", t.kind));
    for s in t.slots.iter().flatten() {
        shard.seen("slot_classes", s.class());
    }
    if let Some((_, n, benign, _)) = &t.notary {
        shard.seen("notary_slot_classes", &format!("{}{}", variant_name(n), if *benign && !matches!(n, NotarySlot::Honest) { ":recovery-id-only" } else { "" }));
    }
    let n_sigs: usize = t.slots.iter().map(|s| s.len()).sum();
    shard.max("signatures_in_one_tx", n_sigs as u64);
    let small_order = t.has_small_order();
    if small_order {
        shard.count("small_order_forgeries_attempted");
        for (w, s) in t.slots.iter().enumerate() {
            for x in s {
                if let Slot::EdSmallOrder(so) = x {
                    shard.seen("small_order_slots", &format!("{}:{}:{}", t.kind, if w == 0 { "root" } else { "subintent" }, so.tag()));
                    shard.seen("small_order_positions", &format!("{}:{}", t.kind, if w == 0 { "root-intent-signature" } else { "subintent-signature" }));
                }
            }
        }
        if let Some((_, NotarySlot::EdSmallOrder(so), _, is_sig)) = &t.notary {
            shard.seen("small_order_slots", &format!("{}:notary:{}", t.kind, so.tag()));
            shard.seen("small_order_positions", &format!("{}:notary:{}{}", t.kind, if *is_sig { "signatory" } else { "not-signatory" }, if t.altered { ":header-altered" } else { "" }));
        }
    }
    match r {
        Ok(a) => {
            shard.count("accepted");
            shard.seen("outcomes", "accepted");
            let forged: usize = t.slots.iter().flatten().filter(|s| s.is_forged_secp()).count();
            if forged > 0 {
                shard.count("accepted_with_forged_secp_slot_recovering_to_foreign_key");
            }
            if let Some((_, n, true, _)) = &t.notary {
                if !matches!(n, NotarySlot::Honest) {
                    shard.count("accepted_with_notary_recovery_id_changed");
                }
            }
            if t.has_duplicates() {
                shard.count("accepted_with_duplicate_signer_merged");
            }
            shard.nontrivial(&(t.kind, "acc", t.slots.iter().map(|s| s.iter().map(|x| x.class()).collect::<Vec<_>>()).collect::<Vec<_>>(), a.intent_hash.0));
            for (sig, detail) in check_accept(t, &a) {
                shard.violation(sig, detail);
            }
            Some(a)
        }
        Err(class) => {
            shard.count("rejected");
            shard.seen("outcomes", &class);
            if small_order {
                shard.count("small_order_forgeries_rejected");
                shard.seen("small_order_rejection_classes", &class);
                if t.altered {
                    shard.count("small_order_notary_header_altered_rejected");
                }
            }
            shard.nontrivial(&(t.kind, class.as_str(), t.must_reject(), n_sigs));
            if t.clean() {
                shard.count("clean_rejected");
                shard.seen("clean_rejected_classes", &class);
                if shard.notes.len() < 3 {
                    shard.notes.push(format!("clean transaction rejected: {class} {}", t.describe()));
                }
            } else if !t.must_reject().is_empty() {
                shard.count("rejected_forgeries");
                for r in t.must_reject() {
                    shard.seen("forgery_classes_rejected", &r);
                }
            }
            None
        }
    }
}

/// Phase B: byte mutations of an accepted clean transaction
fn sweep(shard: &mut Shard, rng: &mut Rng, t: &Truth, base: &Accepted, exhaustive: bool, budget: usize) {
    let validator = validator_for(t);
    let n = t.raw.len();
    let mut buf = t.raw.clone();
    let mut try_one = |shard: &mut Shard, pos: usize, x: u8| {
        buf[pos] ^= x;
        let r = validate_raw(t.kind, &buf, &validator);
        shard.eval();
        shard.count("mutants");
        match r {
            Err(class) => {
                shard.count("mutants_rejected");
                shard.seen("mutant_outcomes", &class);
                shard.nontrivial(&(t.kind, "mut", class.as_str(), (n - pos).min(300), x.count_ones()));
            }
            Ok(a) => {
                shard.count("mutants_accepted");
                shard.seen("accepted_mutant_offsets_from_end", &format!("{}:{}:-{}", t.kind, t.notary.as_ref().map(|(k, _, _, _)| if k.curve == Curve::Secp { "secp-notary" } else { "ed-notary" }).unwrap_or("no-notary"), n - pos));
                shard.nontrivial(&(t.kind, "mut-acc", n - pos, x));
                let same_content = a.intent_hash == base.intent_hash && a.sub_hashes == base.sub_hashes;
                let same_signed = a.signed_hash == base.signed_hash;
                let same_signers = a.signers.iter().map(|s| s.iter().map(pkb).collect::<BTreeSet<_>>()).collect::<Vec<_>>() == base.signers.iter().map(|s| s.iter().map(pkb).collect::<BTreeSet<_>>()).collect::<Vec<_>>();
                let same_proofs = a.proofs == base.proofs;
                if !same_content || !same_signed || !same_signers || !same_proofs {
                    let what = if !same_content { "content-hash" } else if !same_signers || !same_proofs { "signer-set" } else { "signed-intent-hash" };
                    shard.violation(
                        format!("byte-mutation-accepted-with-changed-{what}"),
                        json!({"kind": t.kind, "raw": hex(&t.raw), "pos": pos, "xor": x, "v1_allow_notary_to_duplicate_signer": t.v1_allow_dup}),
                    );
                }
                if a.payload_hash == base.payload_hash {
                    // same identifiers for different bytes: C32's business, recorded here
                    shard.count("mutants_accepted_with_identical_payload_hash");
                }
            }
        }
        buf[pos] ^= x;
    };
    if exhaustive {
        for pos in 0..n {
            for bit in 0..8 {
                try_one(shard, pos, 1 << bit);
            }
            try_one(shard, pos, 0xff);
            let x = 1 + rng.below(255) as u8;
            try_one(shard, pos, x);
        }
        shard.count("fixtures_swept_exhaustively");
        shard.max("exhaustive_fixture_len", n as u64);
    } else {
        for _ in 0..budget {
            let pos = rng.usize_below(n);
            let x = if rng.bool() { 1 << rng.below(8) } else { 1 + rng.below(255) as u8 };
            try_one(shard, pos, x);
        }
        shard.count("fixtures_swept_randomly");
        shard.max("random_fixture_len", n as u64);
    }
}

pub fn run(args: &Args) -> i32 {
    let spec = Spec::new(
        "C33",
        "exploration",
        "accepted ⇒ notary honest (up to the Secp256k1 recovery id), every Ed25519 signature honest, signer keys per intent = honest signers (+ foreign keys recovered from forged Secp256k1 signatures, + notary iff signatory), no duplicates, each signature verifies over the reference hash, executable proofs = signer badges; accepted byte mutant ⇒ intent/subintent/signed-intent hashes and signer sets unchanged",
    )
    .assume("a Secp256k1 intent signature carries no key: it is 'valid' for whatever key it recovers to; such a key is never one of the harness keys unless the harness key really signed that hash")
    .assume("no private key exists for a small-order Ed25519 point; a slot carrying one was signed by nobody, whatever the verification equation says")
    .assume("the Secp256k1 recovery id is not part of the notary signature being verified (it is only needed for recovery)")
    .floor("accepted", args.tier.pick(20_000, 200_000))
    .floor("rejected_forgeries", args.tier.pick(10_000, 100_000))
    .floor("small_order_forgeries_rejected", args.tier.pick(20_000, 200_000))
    .floor("small_order_notary_header_altered_rejected", args.tier.pick(5_000, 50_000))
    .floor("mutants", args.tier.pick(800_000, 10_000_000))
    .floor("fixtures_swept_exhaustively", args.tier.pick(150, 2_000))
    .floor("fixtures_swept_randomly", args.tier.pick(50, 600))
    .explain("Phase A: V1 / V2 (0-3 subintents) / signed partial transactions with 0-16 signature slots per intent over both curves: honest, wrong hash (random / other intent's hash = swapped signature / bit flip), Ed25519 key-field mismatch, corrupted bytes, duplicate signers, notary as signer, notary forged (wrong key, wrong hash, other curve, corrupted); small-order Ed25519 forgeries: public key and R from the 14 encodings of the 8 small-order points, S in {0, 1, L, small}, as intent signature (root, subintent, partial) and as notary key (signatory or not), plus pairs (small-order notary, same transaction with nonce / discriminator / tip altered and all signatures kept). Phase B: every byte of short clean transactions xored with 8 single-bit masks, 0xff and a random mask; 3000 random byte mutations of long ones.");
    if let Some(path) = &args.replay {
        return replay(args, spec, path);
    }
    let mut report = Report::new(args, spec);
    keys();
    let cap_a = scaled(args, args.tier.pick(12_000, 400_000));
    report.run_shards(33_01, args.threads, Duration::from_secs(budget_secs(args.tier, 20, 240)), |_idx, rng, shard| {
        let mut done = 0;
        while done < cap_a && !shard.time_up() {
            done += 1;
            if rng.chance(1, 12) {
                let (base, altered) = small_order_notary_pair(rng);
                run_case(shard, &base);
                run_case(shard, &altered);
                continue;
            }
            let clean = rng.chance(1, 3);
            let t = build_case(rng, clean, false);
            run_case(shard, &t);
            if shard.want_sample() && shard.index == 0 && !clean {
                let d = t.describe();
                shard.sample(|| json!({"slots": d["slots"], "notary": d["notary"], "kind": d["kind"], "must_reject": t.must_reject()}));
            }
        }
    });
    let cap_b = scaled(args, args.tier.pick(400, 10_000));
    report.run_shards(33_02, args.threads, Duration::from_secs(budget_secs(args.tier, 35, 500)), |_idx, rng, shard| {
        let mut done = 0;
        while done < cap_b && !shard.time_up() {
            done += 1;
            let exhaustive = rng.chance(3, 4);
            let t = build_case(rng, true, exhaustive);
            if t.kind == "partial" {
                // no notary: a signed partial transaction is not a complete signed transaction; a
                // recoverable Secp256k1 signature alone binds nothing (it "verifies" for whatever
                // key it recovers to), so the mutation clause is only stated for notarized ones
                continue;
            }
            let Some(base) = run_case(shard, &t) else { continue };
            sweep(shard, rng, &t, &base, exhaustive, 3000);
        }
    });
    report.finish()
}

fn replay(args: &Args, spec: Spec, path: &std::path::Path) -> i32 {
    let mut report = Report::new(args, spec);
    report.spec.floors.clear();
    let doc: Value = serde_json::from_str(&std::fs::read_to_string(path).expect("read replay")).expect("replay json");
    let d = doc.get("detail").cloned().unwrap_or(Value::Null);
    let mut shard = Shard::new(0, "C33", args.tier, std::time::Instant::now() + Duration::from_secs(60));
    let case = d.get("case").cloned().unwrap_or(d.clone());
    let kind = case.get("kind").and_then(|k| k.as_str()).unwrap_or("v1").to_string();
    let raw = unhex(case.get("raw").and_then(|k| k.as_str()).unwrap_or(""));
    let allow = case.get("v1_allow_notary_to_duplicate_signer").and_then(|k| k.as_bool()).unwrap_or(true);
    let mut cfg = TransactionValidationConfig::latest();
    cfg.v1_transactions_allow_notary_to_duplicate_signer = allow;
    let validator = TransactionValidator::new_with_static_config(cfg, NETWORK_ID);
    let base = validate_raw(&kind, &raw, &validator);
    println!("REPLAY C33: recorded transaction now: {}", match &base { Ok(_) => "accepted".to_string(), Err(c) => format!("rejected ({c})") });
    if let (Some(pos), Some(x)) = (d.get("pos").and_then(|p| p.as_u64()), d.get("xor").and_then(|p| p.as_u64())) {
        let mut m = raw.clone();
        m[pos as usize] ^= x as u8;
        let r = validate_raw(&kind, &m, &validator);
        match (&base, &r) {
            (Ok(b), Ok(a)) => {
                let changed = a.intent_hash != b.intent_hash || a.sub_hashes != b.sub_hashes || a.signed_hash != b.signed_hash || a.signers != b.signers;
                println!("REPLAY C33: mutant accepted, content/signers changed = {changed}");
                if changed {
                    shard.violation("byte-mutation-accepted-with-changed-content-or-signers", d.clone());
                }
            }
            (_, Err(c)) => println!("REPLAY C33: mutant rejected ({c})"),
            _ => {}
        }
    } else if base.is_ok() {
        // an acceptance that the recorded ground truth forbids
        println!("REPLAY C33: ground truth of the recorded case: {}", d.get("reasons").map(|r| r.to_string()).unwrap_or_default());
        shard.violation(doc.get("signature").and_then(|s| s.as_str()).unwrap_or("replayed").to_string(), d.clone());
    }
    shard.eval();
    shard.nontrivial(&1u8);
    shard.nontrivial(&2u8);
    report.merge(shard);
    report.finish()
}
