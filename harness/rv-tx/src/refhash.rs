//! Reference model of the transaction identifiers: the documented hash composition (REP-82)
//! computed from the *typed* model with plain `hash()` over byte strings - no
//! `TransactionDecoder`, no `ConcatenatedDigest`, no `Summary`.
//!
//!   E(x)  = manifest SBOR encoding of x without the payload prefix byte (value kind included)
//!   EB(x) = the same without the value kind byte as well (V2 style "value body")
//!   H     = blake2b-256
use radix_common::prelude::*;
use radix_transactions::prelude::*;

const T: u8 = 0x54; // TRANSACTION_HASHABLE_PAYLOAD_PREFIX

fn e<V: ManifestEncode>(x: &V) -> Vec<u8> {
    manifest_encode(x).expect("reference encode")[1..].to_vec()
}

fn eb<V: ManifestEncode>(x: &V) -> Vec<u8> {
    manifest_encode(x).expect("reference encode")[2..].to_vec()
}

fn h(parts: &[&[u8]]) -> Hash {
    let mut all = vec![];
    for p in parts {
        all.extend_from_slice(p);
    }
    hash(all)
}

fn blobs_hash(b: &BlobsV1) -> Hash {
    let mut all = vec![];
    for blob in &b.blobs {
        all.extend_from_slice(&hash(&blob.0).0);
    }
    hash(all)
}

#[derive(Clone, Debug, PartialEq, Eq)]
pub struct RefHashes {
    pub intent: Hash,
    pub signed: Hash,
    pub notarized: Hash,
    pub subintents: Vec<Hash>,
}

pub fn intent_v1(i: &IntentV1) -> Hash {
    h(&[&[T, 1], &hash(e(&i.header)).0, &hash(e(&i.instructions)).0, &blobs_hash(&i.blobs).0, &hash(e(&i.message)).0])
}

pub fn signed_intent_v1(s: &SignedIntentV1) -> (Hash, Hash) {
    let ih = intent_v1(&s.intent);
    (ih, h(&[&[T, 2], &ih.0, &hash(e(&s.intent_signatures)).0]))
}

pub fn notarized_v1(t: &NotarizedTransactionV1) -> RefHashes {
    let (ih, sh) = signed_intent_v1(&t.signed_intent);
    let nh = h(&[&[T, 3], &sh.0, &hash(e(&t.notary_signature)).0]);
    RefHashes { intent: ih, signed: sh, notarized: nh, subintents: vec![] }
}

pub fn intent_core_v2(c: &IntentCoreV2) -> Hash {
    let mut kids = vec![];
    for k in &c.children.children {
        kids.extend_from_slice(&k.hash.0 .0);
    }
    h(&[&hash(eb(&c.header)).0, &blobs_hash(&c.blobs).0, &hash(eb(&c.message)).0, &hash(kids).0, &hash(eb(&c.instructions)).0])
}

pub fn subintent_v2(s: &SubintentV2) -> Hash {
    h(&[&[T, 11], &intent_core_v2(&s.intent_core).0])
}

fn non_root_hash(n: &NonRootSubintentsV2) -> (Hash, Vec<Hash>) {
    let hs: Vec<Hash> = n.0.iter().map(subintent_v2).collect();
    let mut all = vec![];
    for x in &hs {
        all.extend_from_slice(&x.0);
    }
    (hash(all), hs)
}

pub fn tx_intent_v2(t: &TransactionIntentV2) -> (Hash, Vec<Hash>) {
    let (nr, hs) = non_root_hash(&t.non_root_subintents);
    (h(&[&[T, 9], &hash(eb(&t.transaction_header)).0, &intent_core_v2(&t.root_intent_core).0, &nr.0]), hs)
}

fn batches_hash(b: &NonRootSubintentSignaturesV2) -> Hash {
    let mut all = vec![];
    for x in &b.by_subintent {
        all.extend_from_slice(&hash(eb(x)).0);
    }
    hash(all)
}

pub fn signed_tx_intent_v2(s: &SignedTransactionIntentV2) -> (Hash, Hash, Vec<Hash>) {
    let (ih, hs) = tx_intent_v2(&s.transaction_intent);
    let sh = h(&[&[T, 10], &ih.0, &hash(eb(&s.transaction_intent_signatures)).0, &batches_hash(&s.non_root_subintent_signatures).0]);
    (ih, sh, hs)
}

pub fn notarized_v2(t: &NotarizedTransactionV2) -> RefHashes {
    let (ih, sh, hs) = signed_tx_intent_v2(&t.signed_transaction_intent);
    let nh = h(&[&[T, 12], &sh.0, &hash(eb(&t.notary_signature)).0]);
    RefHashes { intent: ih, signed: sh, notarized: nh, subintents: hs }
}

/// (payload hash, root subintent hash, non-root subintent hashes)
pub fn partial_v2(p: &PartialTransactionV2) -> (Hash, Hash, Vec<Hash>) {
    let root = subintent_v2(&p.root_subintent);
    let (nr, hs) = non_root_hash(&p.non_root_subintents);
    (h(&[&[T, 13], &root.0, &nr.0]), root, hs)
}

pub fn signed_partial_v2(p: &SignedPartialTransactionV2) -> (Hash, Hash, Vec<Hash>) {
    let (ph, root, hs) = partial_v2(&p.partial_transaction);
    (h(&[&[T, 14], &ph.0, &hash(eb(&p.root_subintent_signatures)).0, &batches_hash(&p.non_root_subintent_signatures).0]), root, hs)
}

pub fn system_v1(s: &SystemTransactionV1) -> Hash {
    h(&[&[T, 4], &hash(e(&s.instructions)).0, &blobs_hash(&s.blobs).0, &hash(e(&s.pre_allocated_addresses)).0, &s.hash_for_execution.0])
}

pub fn round_update_v1(r: &RoundUpdateTransactionV1) -> Hash {
    let instructions = InstructionsV1(r.create_instructions());
    h(&[&[T, 5], &hash(e(r)).0, &hash(e(&instructions)).0])
}

pub fn flash_v1(f: &FlashTransactionV1) -> Hash {
    h(&[&[T, 8], &hash(e(&f.name)).0, &hash(e(&f.state_updates)).0])
}

/// kind: 0 genesis, 1 user (V1 and V2), 2 round update, 3 flash
pub fn ledger(kind: u8, inner: &Hash) -> Hash {
    h(&[&[T, 7, kind], &inner.0])
}
