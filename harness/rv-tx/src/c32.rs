//! C32: transaction identifiers commit to the whole transaction; only canonical payloads.
//!
//! Checks (every one of them on real `prepare` / `from_raw` of /repo):
//!  R  round trip: typed → raw → prepare ok, hashes = reference model (refhash.rs, written from
//!     the documented composition), from_raw → typed → to_raw = identical bytes, AnyTransaction
//!     decode/encode identical, the same hashes in every context the part can appear in
//!     (stand-alone intent / signed intent / subintent payloads, ledger wrapper, user-transaction
//!     dispatch);
//!  S  sensitivity: one typed field edit at a time; every hash that covers the edited part must
//!     change, every hash that does not must stay;
//!  N  non-canonical payloads are rejected by prepare *and* by from_raw: trailing bytes, wrong
//!     payload prefix, wrong root value kind, every other discriminator, padded LEB128 sizes
//!     (located with an independent SBOR walker), over-limit counts/sizes per PreparationSettings
//!     (limit itself accepted);
//!  M  arbitrary byte mutations: prepare ok ⇒ from_raw ok, re-encoding reproduces exactly the
//!     mutated bytes, re-preparing gives the same hashes, and the payload's top-level hash
//!     differs from the unmutated one.
use crate::gen::*;
use crate::refhash;
use crate::sborwalk;
use radix_common::prelude::*;
use radix_engine_interface::prelude::*;
use radix_transactions::manifest::*;
use radix_transactions::prelude::*;
use rv_common::*;
use serde_json::{json, Value};
use std::time::Duration;

#[derive(Clone, Copy, Debug, PartialEq, Eq, Hash)]
pub enum Kind {
    IntentV1,
    SignedIntentV1,
    NotarizedV1,
    TxIntentV2,
    SignedTxIntentV2,
    NotarizedV2,
    SubintentV2,
    PartialV2,
    SignedPartialV2,
    SystemV1,
    RoundUpdateV1,
    FlashV1,
    Ledger,
    /// notarized raw through the version-dispatching `PreparedUserTransaction`
    UserAny,
}

pub const ALL_KINDS: [Kind; 14] = [
    Kind::IntentV1, Kind::SignedIntentV1, Kind::NotarizedV1, Kind::TxIntentV2, Kind::SignedTxIntentV2, Kind::NotarizedV2, Kind::SubintentV2, Kind::PartialV2, Kind::SignedPartialV2,
    Kind::SystemV1, Kind::RoundUpdateV1, Kind::FlashV1, Kind::Ledger, Kind::UserAny,
];

impl Kind {
    pub fn name(&self) -> String {
        format!("{self:?}")
    }
    pub fn from_name(s: &str) -> Option<Kind> {
        ALL_KINDS.iter().copied().find(|k| k.name() == s)
    }
}

pub type Hashes = Vec<(String, Hash)>;

fn named(v: Vec<(&str, Hash)>, subs: Vec<Hash>) -> Hashes {
    let mut out: Hashes = v.into_iter().map(|(n, h)| (n.to_string(), h)).collect();
    for (i, h) in subs.into_iter().enumerate() {
        out.push((format!("sub{i}"), h));
    }
    out
}

fn user_hashes(h: UserTransactionHashes) -> Hashes {
    named(
        vec![("intent", h.transaction_intent_hash.0), ("signed", h.signed_transaction_intent_hash.0), ("notarized", h.notarized_transaction_hash.0)],
        h.non_root_subintent_hashes.iter().map(|x| x.0).collect(),
    )
}

/// `prepare` of the code under test, reduced to the named identifiers it yields.
pub fn prepare_hashes(kind: Kind, raw: &[u8], s: &PreparationSettings) -> Result<Hashes, PrepareError> {
    Ok(match kind {
        Kind::IntentV1 => {
            let p = PreparedIntentV1::prepare(&RawTransactionIntent::from_slice(raw), s)?;
            named(vec![("intent", p.transaction_intent_hash().0)], vec![])
        }
        Kind::SignedIntentV1 => {
            let p = PreparedSignedIntentV1::prepare(&RawSignedTransactionIntent::from_slice(raw), s)?;
            named(vec![("intent", p.transaction_intent_hash().0), ("signed", p.signed_transaction_intent_hash().0)], vec![])
        }
        Kind::NotarizedV1 => user_hashes(PreparedNotarizedTransactionV1::prepare(&RawNotarizedTransaction::from_slice(raw), s)?.hashes()),
        Kind::TxIntentV2 => {
            let p = PreparedTransactionIntentV2::prepare(&RawTransactionIntent::from_slice(raw), s)?;
            named(vec![("intent", p.transaction_intent_hash().0)], p.non_root_subintent_hashes().iter().map(|x| x.0).collect())
        }
        Kind::SignedTxIntentV2 => {
            let p = PreparedSignedTransactionIntentV2::prepare(&RawSignedTransactionIntent::from_slice(raw), s)?;
            named(vec![("intent", p.transaction_intent_hash().0), ("signed", p.signed_transaction_intent_hash().0)], p.non_root_subintent_hashes().iter().map(|x| x.0).collect())
        }
        Kind::NotarizedV2 => user_hashes(PreparedNotarizedTransactionV2::prepare(&RawNotarizedTransaction::from_slice(raw), s)?.hashes()),
        Kind::UserAny => user_hashes(PreparedUserTransaction::prepare(&RawNotarizedTransaction::from_slice(raw), s)?.hashes()),
        Kind::SubintentV2 => {
            let p = PreparedSubintentV2::prepare(&RawSubintent::from_slice(raw), s)?;
            named(vec![("subintent", p.subintent_hash().0)], vec![])
        }
        Kind::PartialV2 => {
            let p = PreparedPartialTransactionV2::prepare(&RawPartialTransaction::from_slice(raw), s)?;
            named(vec![("payload", p.summary.hash), ("root", p.subintent_hash().0)], p.non_root_subintent_hashes().map(|x| x.0).collect())
        }
        Kind::SignedPartialV2 => {
            let p = PreparedSignedPartialTransactionV2::prepare(&RawSignedPartialTransaction::from_slice(raw), s)?;
            named(vec![("payload", p.summary.hash), ("root", p.subintent_hash().0)], p.non_root_subintent_hashes().map(|x| x.0).collect())
        }
        Kind::SystemV1 => {
            let p = PreparedSystemTransactionV1::prepare(&RawSystemTransaction::from_slice(raw), s)?;
            named(vec![("system", p.system_transaction_hash().0)], vec![])
        }
        Kind::RoundUpdateV1 => {
            let p = PreparedRoundUpdateTransactionV1::prepare(&RawRoundUpdateTransactionV1::from_slice(raw), s)?;
            named(vec![("round", p.round_update_transaction_hash().0)], vec![])
        }
        Kind::FlashV1 => {
            let p = PreparedFlashTransactionV1::prepare(&raw.to_vec().into(), s)?;
            named(vec![("flash", p.flash_transaction_hash().0)], vec![])
        }
        Kind::Ledger => {
            let p = PreparedLedgerTransaction::prepare(&RawLedgerTransaction::from_slice(raw), s)?;
            let h = p.create_hashes();
            let mut out = named(vec![("ledger", h.ledger_transaction_hash.0)], vec![]);
            match h.kinded {
                KindedTransactionHashes::Genesis { system_transaction_hash } => out.push(("system".into(), system_transaction_hash.0)),
                KindedTransactionHashes::User(u) => out.extend(user_hashes(u)),
                KindedTransactionHashes::RoundUpdateV1 { round_update_hash } => out.push(("round".into(), round_update_hash.0)),
                KindedTransactionHashes::FlashV1 { flash_transaction_hash } => out.push(("flash".into(), flash_transaction_hash.0)),
            }
            out
        }
    })
}

/// typed decode (`from_raw`) followed by typed encode (`to_raw`)
pub fn reencode(kind: Kind, raw: &[u8]) -> Result<Vec<u8>, String> {
    fn rt<T: TransactionPayload>(raw: &[u8]) -> Result<Vec<u8>, String> {
        let r: T::Raw = raw.to_vec().into();
        let t = T::from_raw(&r).map_err(|e| format!("{e:?}"))?;
        Ok(t.to_raw().map_err(|e| format!("{e:?}"))?.into())
    }
    match kind {
        Kind::IntentV1 => rt::<IntentV1>(raw),
        Kind::SignedIntentV1 => rt::<SignedIntentV1>(raw),
        Kind::NotarizedV1 => rt::<NotarizedTransactionV1>(raw),
        Kind::TxIntentV2 => rt::<TransactionIntentV2>(raw),
        Kind::SignedTxIntentV2 => rt::<SignedTransactionIntentV2>(raw),
        Kind::NotarizedV2 => rt::<NotarizedTransactionV2>(raw),
        Kind::SubintentV2 => rt::<SubintentV2>(raw),
        Kind::PartialV2 => rt::<PartialTransactionV2>(raw),
        Kind::SignedPartialV2 => rt::<SignedPartialTransactionV2>(raw),
        Kind::SystemV1 => rt::<SystemTransactionV1>(raw),
        Kind::RoundUpdateV1 => rt::<RoundUpdateTransactionV1>(raw),
        Kind::FlashV1 => rt::<FlashTransactionV1>(raw),
        Kind::Ledger => rt::<LedgerTransaction>(raw),
        Kind::UserAny => {
            let t = UserTransaction::from_raw(&RawNotarizedTransaction::from_slice(raw)).map_err(|e| format!("{e:?}"))?;
            manifest_encode(&t).map_err(|e| format!("{e:?}"))
        }
    }
}

fn top_hash(h: &Hashes) -> Hash {
    // the identifier of the payload itself
    for want in ["ledger", "notarized", "payload", "signed", "intent", "subintent", "system", "round", "flash"] {
        if let Some((_, x)) = h.iter().find(|(n, _)| n == want) {
            return *x;
        }
    }
    h[0].1
}

// ---------------------------------------------------------------------------------------------
// Fixtures
// ---------------------------------------------------------------------------------------------
#[derive(Clone, Debug)]
pub enum Fixture {
    V1(NotarizedTransactionV1),
    V2(NotarizedTransactionV2),
    Partial(SignedPartialTransactionV2),
    System(SystemTransactionV1),
    Round(RoundUpdateTransactionV1),
    Flash(FlashTransactionV1),
}

fn rand_system(rng: &mut Rng) -> SystemTransactionV1 {
    let n = rng.usize_below(3);
    SystemTransactionV1 {
        instructions: InstructionsV1(lower_v1(&rand_atoms(rng, 6))),
        blobs: rand_blobs(rng, 3),
        pre_allocated_addresses: (0..n)
            .map(|_| PreAllocatedAddress { blueprint_id: BlueprintId { package_address: PackageAddress::new_or_panic({ let mut r = [0u8; 30]; rng.fill(&mut r); r[0] = EntityType::GlobalPackage as u8; r }), blueprint_name: rand_ident(rng) }, address: rand_global_address(rng) })
            .collect(),
        hash_for_execution: Hash(rng.bytes(32).try_into().unwrap()),
    }
}

fn rand_round(rng: &mut Rng) -> RoundUpdateTransactionV1 {
    let n = rng.size(6);
    RoundUpdateTransactionV1 {
        proposer_timestamp_ms: rng.u64() as i64 >> rng.below(40),
        epoch: Epoch::of(rng.below(1 << 20)),
        round: Round::of(rng.below(1 << 20)),
        leader_proposal_history: LeaderProposalHistory { gap_round_leaders: (0..n).map(|_| rng.u8()).collect(), current_leader: rng.u8(), is_fallback: rng.bool() },
    }
}

fn rand_flash(rng: &mut Rng) -> FlashTransactionV1 {
    let mut by_node = IndexMap::new();
    for _ in 0..rng.usize_below(3) {
        let mut by_partition = IndexMap::new();
        for _ in 0..1 + rng.usize_below(2) {
            let mut by_substate = IndexMap::new();
            for _ in 0..1 + rng.usize_below(3) {
                let key = match rng.below(3) {
                    0 => SubstateKey::Field(rng.u8()),
                    1 => { let n = 1 + rng.usize_below(8); SubstateKey::Map(rng.bytes(n)) }
                    _ => { let n = 1 + rng.usize_below(8); SubstateKey::Sorted((rng.u64().to_be_bytes()[..2].try_into().unwrap(), rng.bytes(n))) }
                };
                let upd = if rng.bool() { let n = rng.size(20); DatabaseUpdate::Set(rng.bytes(n)) } else { DatabaseUpdate::Delete };
                by_substate.insert(key, upd);
            }
            by_partition.insert(PartitionNumber(rng.u8()), PartitionStateUpdates::Delta { by_substate });
        }
        by_node.insert(rand_global_address(rng).into_node_id(), NodeStateUpdates::Delta { by_partition });
    }
    FlashTransactionV1 { name: rand_ident(rng), state_updates: StateUpdates { by_node } }
}

/// >= 2 reference-bearing calls among the atoms
fn rich_atoms(rng: &mut Rng) -> Vec<Atom> {
    let mut a = rand_atoms(rng, 4);
    for k in 0..2 + rng.usize_below(2) {
        let refs: Vec<GlobalAddress> = (0..1 + rng.usize_below(3)).map(|_| rand_global_address(rng)).collect();
        let at = rng.usize_below(a.len() + 1);
        a.insert(at, Atom::Call(call_with_refs(rand_global_address(rng), if k % 2 == 0 { "a" } else { "b" }, &refs)));
    }
    a
}

fn rich_blobs(rng: &mut Rng) -> BlobsV1 {
    BlobsV1 { blobs: (0..2 + rng.usize_below(3)).map(|i| { let n = 1 + rng.usize_below(12); let mut b = rng.bytes(n); b.push(i as u8); BlobV1(b) }).collect() }
}

/// Fixtures in which every collection of the model is populated with >= 2 members: blobs,
/// signatures, reference-bearing instructions, children (>= 2 under the root, >= 1 under a
/// subintent), decryptor maps over both curves.
fn rich_fixture(rng: &mut Rng) -> Fixture {
    let notary = KeyId::random(rng);
    if rng.chance(1, 3) {
        let mut intent = rand_intent_v1(rng, notary, 2);
        intent.instructions = InstructionsV1(lower_v1(&rich_atoms(rng)));
        intent.blobs = rich_blobs(rng);
        intent.message = { let (a, b) = (2 + rng.usize_below(2), 2 + rng.usize_below(2)); encrypted_v1(rng, 9, a, b) };
        let n = 2 + rng.usize_below(3);
        let signers = distinct_keys(rng, n);
        return Fixture::V1(build_v1(intent, &signers, notary));
    }
    // root -> {a, b}, a -> {c}
    let partial = rng.chance(1, 4);
    let mk = |rng: &mut Rng, kids: &[Hash], is_sub: bool| {
        let atoms = rich_atoms(rng);
        let yc: Vec<usize> = kids.iter().map(|_| 1).collect();
        let mut core = subintent_core(rng, &atoms, kids, &yc, 1, is_sub);
        core.blobs = rich_blobs(rng);
        if rng.bool() {
            core.message = { let (a, b) = (2 + rng.usize_below(2), 2 + rng.usize_below(2)); encrypted_v2(rng, 9, a, b) };
        }
        core
    };
    let c = SubintentV2 { intent_core: mk(rng, &[], true) };
    let a = SubintentV2 { intent_core: mk(rng, &[subintent_hash(&c)], true) };
    let b = SubintentV2 { intent_core: mk(rng, &[], true) };
    let extra = SubintentV2 { intent_core: mk(rng, &[], true) };
    let mut kids = vec![subintent_hash(&a), subintent_hash(&b)];
    let mut subs = vec![a, c, b];
    if rng.bool() {
        kids.push(subintent_hash(&extra));
        subs.push(extra);
    }
    let root_core = mk(rng, &kids, partial);
    let sub_signers: Vec<Vec<KeyId>> = subs.iter().map(|_| { let n = 2 + rng.usize_below(2); distinct_keys(rng, n) }).collect();
    let n = 2 + rng.usize_below(2);
    let root_signers = distinct_keys(rng, n);
    if partial {
        let p = PartialTransactionV2 { root_subintent: SubintentV2 { intent_core: root_core }, non_root_subintents: NonRootSubintentsV2(subs) };
        let (_, rh, hs) = refhash::partial_v2(&p);
        let root_sigs = root_signers.iter().map(|k| IntentSignatureV1(k.sign_with_pk(&rh))).collect();
        let batches = hs.iter().zip(sub_signers.iter()).map(|(h, ks)| IntentSignaturesV2 { signatures: ks.iter().map(|k| IntentSignatureV1(k.sign_with_pk(h))).collect() }).collect();
        Fixture::Partial(SignedPartialTransactionV2 { partial_transaction: p, root_subintent_signatures: IntentSignaturesV2 { signatures: root_sigs }, non_root_subintent_signatures: NonRootSubintentSignaturesV2 { by_subintent: batches } })
    } else {
        let ti = TransactionIntentV2 {
            transaction_header: TransactionHeaderV2 { notary_public_key: notary.public(), notary_is_signatory: rng.bool(), tip_basis_points: rng.below(500) as u32 },
            root_intent_core: root_core,
            non_root_subintents: NonRootSubintentsV2(subs),
        };
        Fixture::V2(build_v2(ti, &root_signers, &sub_signers, notary))
    }
}

pub fn rand_fixture(rng: &mut Rng) -> Fixture {
    if rng.chance(1, 3) {
        return rich_fixture(rng);
    }
    let notary = KeyId::random(rng);
    match rng.below(20) {
        0..=6 => {
            let n = rng.usize_below(4);
            let signers = distinct_keys(rng, n);
            Fixture::V1(build_v1(rand_intent_v1(rng, notary, 8), &signers, notary))
        }
        7..=13 => {
            let n_sub = rng.usize_below(4);
            let ti = rand_tx_intent_v2(rng, notary, n_sub, 3, 6);
            let n = rng.usize_below(3);
            let root = distinct_keys(rng, n);
            let subs: Vec<Vec<KeyId>> = (0..n_sub).map(|_| { let n = rng.usize_below(3); distinct_keys(rng, n) }).collect();
            Fixture::V2(build_v2(ti, &root, &subs, notary))
        }
        14 | 15 => {
            let n_sub = rng.usize_below(3);
            let ti = rand_tx_intent_v2(rng, notary, n_sub, 2, 5);
            let mut core = ti.root_intent_core.clone();
            core.instructions.0.push(InstructionV2::YieldToParent(YieldToParent::empty()));
            let p = PartialTransactionV2 { root_subintent: SubintentV2 { intent_core: core }, non_root_subintents: ti.non_root_subintents.clone() };
            let (_, rh, hs) = refhash::partial_v2(&p);
            let n = rng.usize_below(3);
            let root_sigs = distinct_keys(rng, n).iter().map(|k| IntentSignatureV1(k.sign_with_pk(&rh))).collect();
            let batches = hs.iter().map(|h| { let n = rng.usize_below(2); IntentSignaturesV2 { signatures: distinct_keys(rng, n).iter().map(|k| IntentSignatureV1(k.sign_with_pk(h))).collect() } }).collect();
            Fixture::Partial(SignedPartialTransactionV2 { partial_transaction: p, root_subintent_signatures: IntentSignaturesV2 { signatures: root_sigs }, non_root_subintent_signatures: NonRootSubintentSignaturesV2 { by_subintent: batches } })
        }
        16 | 17 => Fixture::System(rand_system(rng)),
        18 => Fixture::Round(rand_round(rng)),
        _ => Fixture::Flash(rand_flash(rng)),
    }
}

fn raw_of<T: TransactionPayload>(t: &T) -> Vec<u8> {
    t.to_raw().expect("encode fixture").into()
}

/// Every payload a fixture can be looked at as: (kind, raw bytes, reference hashes)
pub fn payloads(f: &Fixture, with_ledger: bool) -> Vec<(Kind, Vec<u8>, Hashes)> {
    let mut out = vec![];
    match f {
        Fixture::V1(t) => {
            let r = refhash::notarized_v1(t);
            let user = named(vec![("intent", r.intent), ("signed", r.signed), ("notarized", r.notarized)], vec![]);
            out.push((Kind::NotarizedV1, raw_of(t), user.clone()));
            out.push((Kind::UserAny, raw_of(t), user.clone()));
            out.push((Kind::SignedIntentV1, raw_of(&t.signed_intent), named(vec![("intent", r.intent), ("signed", r.signed)], vec![])));
            out.push((Kind::IntentV1, raw_of(&t.signed_intent.intent), named(vec![("intent", r.intent)], vec![])));
            if with_ledger {
                let mut h = named(vec![("ledger", refhash::ledger(1, &r.notarized))], vec![]);
                h.extend(user);
                out.push((Kind::Ledger, raw_of(&LedgerTransaction::UserV1(Box::new(t.clone()))), h));
            }
        }
        Fixture::V2(t) => {
            let r = refhash::notarized_v2(t);
            let user = named(vec![("intent", r.intent), ("signed", r.signed), ("notarized", r.notarized)], r.subintents.clone());
            out.push((Kind::NotarizedV2, raw_of(t), user.clone()));
            out.push((Kind::UserAny, raw_of(t), user.clone()));
            out.push((Kind::SignedTxIntentV2, raw_of(&t.signed_transaction_intent), named(vec![("intent", r.intent), ("signed", r.signed)], r.subintents.clone())));
            out.push((Kind::TxIntentV2, raw_of(&t.signed_transaction_intent.transaction_intent), named(vec![("intent", r.intent)], r.subintents.clone())));
            for (i, s) in t.signed_transaction_intent.transaction_intent.non_root_subintents.0.iter().enumerate() {
                out.push((Kind::SubintentV2, raw_of(s), named(vec![("subintent", r.subintents[i])], vec![])));
            }
            if with_ledger {
                let mut h = named(vec![("ledger", refhash::ledger(1, &r.notarized))], vec![]);
                h.extend(user);
                out.push((Kind::Ledger, raw_of(&LedgerTransaction::UserV2(Box::new(t.clone()))), h));
            }
        }
        Fixture::Partial(t) => {
            let (sp, root, hs) = refhash::signed_partial_v2(t);
            let (p, _, _) = refhash::partial_v2(&t.partial_transaction);
            out.push((Kind::SignedPartialV2, raw_of(t), named(vec![("payload", sp), ("root", root)], hs.clone())));
            out.push((Kind::PartialV2, raw_of(&t.partial_transaction), named(vec![("payload", p), ("root", root)], hs.clone())));
            out.push((Kind::SubintentV2, raw_of(&t.partial_transaction.root_subintent), named(vec![("subintent", root)], vec![])));
        }
        Fixture::System(t) => {
            let h = refhash::system_v1(t);
            out.push((Kind::SystemV1, raw_of(t), named(vec![("system", h)], vec![])));
            if with_ledger {
                out.push((Kind::Ledger, raw_of(&LedgerTransaction::Genesis(Box::new(GenesisTransaction::Transaction(Box::new(t.clone()))))), named(vec![("ledger", refhash::ledger(0, &h)), ("system", h)], vec![])));
            }
        }
        Fixture::Round(t) => {
            let h = refhash::round_update_v1(t);
            out.push((Kind::RoundUpdateV1, raw_of(t), named(vec![("round", h)], vec![])));
            if with_ledger {
                out.push((Kind::Ledger, raw_of(&LedgerTransaction::RoundUpdateV1(Box::new(t.clone()))), named(vec![("ledger", refhash::ledger(2, &h)), ("round", h)], vec![])));
            }
        }
        Fixture::Flash(t) => {
            let h = refhash::flash_v1(t);
            out.push((Kind::FlashV1, raw_of(t), named(vec![("flash", h)], vec![])));
            if with_ledger {
                out.push((Kind::Ledger, raw_of(&LedgerTransaction::FlashV1(Box::new(t.clone()))), named(vec![("ledger", refhash::ledger(3, &h)), ("flash", h)], vec![])));
                let gf = hash("Genesis Flash");
                out.push((Kind::Ledger, raw_of(&LedgerTransaction::Genesis(Box::new(GenesisTransaction::Flash))), named(vec![("ledger", refhash::ledger(0, &gf)), ("system", gf)], vec![])));
            }
        }
    }
    out
}

// ---------------------------------------------------------------------------------------------
// R: round trip
// ---------------------------------------------------------------------------------------------
fn check_roundtrip(shard: &mut Shard, kind: Kind, raw: &[u8], reference: &Hashes) {
    let s = settings();
    shard.eval();
    shard.count("roundtrip:payloads");
    shard.seen("roundtrip:kinds", &kind.name());
    shard.nontrivial(&(kind, "rt", h64(raw)));
    let detail = |what: &str| json!({"check": "roundtrip", "kind": kind.name(), "raw": hex(raw), "what": what});
    match prepare_hashes(kind, raw, s) {
        Err(e) => shard.violation(format!("roundtrip:{}:encoded-typed-model-does-not-prepare", kind.name()), detail(&format!("{e:?}"))),
        Ok(h) => {
            if &h != reference {
                let which: Vec<String> = h.iter().zip(reference.iter()).filter(|(a, b)| a != b).map(|(a, _)| a.0.clone()).collect();
                shard.violation(format!("roundtrip:{}:hash-differs-from-reference-composition", kind.name()), detail(&format!("differing: {which:?}")));
            }
            shard.add("roundtrip:hashes_compared_with_reference", h.len() as u64);
        }
    }
    match reencode(kind, raw) {
        Err(e) => shard.violation(format!("roundtrip:{}:own-encoding-does-not-decode", kind.name()), detail(&e)),
        Ok(b) => {
            if b != raw {
                shard.violation(format!("roundtrip:{}:re-encoding-differs", kind.name()), detail("decode → encode gives other bytes"));
            }
        }
    }
    if kind != Kind::UserAny {
        match manifest_decode::<AnyTransaction>(raw) {
            Err(e) => shard.violation(format!("roundtrip:{}:not-decodable-as-AnyTransaction", kind.name()), detail(&format!("{e:?}"))),
            Ok(t) => {
                if manifest_encode(&t).ok().as_deref() != Some(raw) {
                    shard.violation(format!("roundtrip:{}:AnyTransaction-re-encoding-differs", kind.name()), detail(""));
                }
            }
        }
    }
}

// ---------------------------------------------------------------------------------------------
// S: sensitivity - typed field edits
// ---------------------------------------------------------------------------------------------
fn other_key(rng: &mut Rng, not: &PublicKey) -> PublicKey {
    loop {
        let k = KeyId::random(rng).public();
        if &k != not {
            return k;
        }
    }
}

fn edit_blobs(rng: &mut Rng, b: &mut BlobsV1) -> &'static str {
    match rng.below(6) {
        0 if !b.blobs.is_empty() => {
            let i = rng.usize_below(b.blobs.len());
            if b.blobs[i].0.is_empty() {
                b.blobs[i].0.push(7);
                return "blob:append-byte";
            }
            let j = rng.usize_below(b.blobs[i].0.len());
            b.blobs[i].0[j] ^= 1 << rng.below(8);
            "blob:flip-bit"
        }
        1 if !b.blobs.is_empty() => {
            let i = rng.usize_below(b.blobs.len());
            b.blobs.remove(i);
            "blob:remove"
        }
        2 if b.blobs.len() >= 2 => {
            let i = rng.usize_below(b.blobs.len() - 1);
            b.blobs.swap(i, i + 1);
            "blob:swap"
        }
        3 if !b.blobs.is_empty() => {
            let i = rng.usize_below(b.blobs.len());
            let c = b.blobs[i].clone();
            b.blobs.push(c);
            "blob:duplicate"
        }
        4 if !b.blobs.is_empty() => {
            let i = rng.usize_below(b.blobs.len());
            b.blobs[i].0.push(0);
            "blob:append-zero-byte"
        }
        _ => {
            let n = rng.size(10);
            b.blobs.push(BlobV1(rng.bytes(n)));
            "blob:add"
        }
    }
}

fn edit_plaintext(rng: &mut Rng, p: &mut PlaintextMessageV1) -> &'static str {
    match rng.below(4) {
        0 => {
            p.mime_type.push('x');
            "message:mime"
        }
        1 => {
            match &mut p.message {
                MessageContentsV1::String(s) => s.push('!'),
                MessageContentsV1::Bytes(b) => b.push(1),
            }
            "message:content-append"
        }
        2 => {
            p.message = match &p.message {
                MessageContentsV1::String(s) => MessageContentsV1::Bytes(s.as_bytes().to_vec()),
                MessageContentsV1::Bytes(b) => MessageContentsV1::String(b.iter().map(|x| (b'a' + x % 26) as char).collect()),
            };
            "message:string<->bytes"
        }
        _ => {
            p.mime_type = p.mime_type.to_uppercase() + "Q";
            "message:mime-case"
        }
    }
}

fn edit_message_v1(rng: &mut Rng, m: &mut MessageV1) -> &'static str {
    match m {
        MessageV1::None => {
            *m = if rng.bool() { MessageV1::Plaintext(plaintext(rng, 3, 0, false)) } else { encrypted_v1(rng, 0, 1, 0) };
            "message:none->some"
        }
        MessageV1::Plaintext(p) => {
            if rng.chance(1, 5) {
                *m = MessageV1::None;
                return "message:some->none";
            }
            edit_plaintext(rng, p)
        }
        MessageV1::Encrypted(e) => match rng.below(4) {
            0 => {
                e.encrypted.0.push(9);
                "message:encrypted-append"
            }
            1 => {
                let (_, d) = e.decryptors_by_curve.iter_mut().next().unwrap();
                match d {
                    DecryptorsByCurve::Ed25519 { decryptors, .. } | DecryptorsByCurve::Secp256k1 { decryptors, .. } => {
                        let (_, v) = decryptors.iter_mut().next().unwrap();
                        v.0[0] ^= 1;
                    }
                }
                "message:decryptor-key-flip"
            }
            2 => {
                let (_, d) = e.decryptors_by_curve.iter_mut().next().unwrap();
                match d {
                    DecryptorsByCurve::Ed25519 { decryptors, .. } | DecryptorsByCurve::Secp256k1 { decryptors, .. } => {
                        let mut k = [0u8; AesWrapped128BitKey::LENGTH];
                        rng.fill(&mut k);
                        decryptors.insert(rand_fingerprint(rng), AesWrapped128BitKey(k));
                    }
                }
                "message:decryptor-add"
            }
            _ => {
                // reverse the order of the curve map / decryptor map (maps are order-preserving on the wire)
                if e.decryptors_by_curve.len() >= 2 {
                    e.decryptors_by_curve.reverse();
                    "message:curve-order"
                } else {
                    let (_, d) = e.decryptors_by_curve.iter_mut().next().unwrap();
                    match d {
                        DecryptorsByCurve::Ed25519 { decryptors, .. } | DecryptorsByCurve::Secp256k1 { decryptors, .. } => decryptors.reverse(),
                    }
                    "message:decryptor-order"
                }
            }
        },
    }
}

fn edit_message_v2(rng: &mut Rng, m: &mut MessageV2) -> &'static str {
    match m {
        MessageV2::None => {
            *m = if rng.bool() { MessageV2::Plaintext(plaintext(rng, 3, 0, false)) } else { encrypted_v2(rng, 0, 1, 0) };
            "message:none->some"
        }
        MessageV2::Plaintext(p) => {
            if rng.chance(1, 5) {
                *m = MessageV2::None;
                return "message:some->none";
            }
            edit_plaintext(rng, p)
        }
        MessageV2::Encrypted(e) => match rng.below(3) {
            0 => {
                e.encrypted.0.push(9);
                "message:encrypted-append"
            }
            1 => {
                let (_, d) = e.decryptors_by_curve.iter_mut().next().unwrap();
                match d {
                    DecryptorsByCurveV2::Ed25519 { decryptors, .. } | DecryptorsByCurveV2::Secp256k1 { decryptors, .. } => {
                        let (_, v) = decryptors.iter_mut().next().unwrap();
                        v.0[0] ^= 1;
                    }
                }
                "message:decryptor-key-flip"
            }
            _ => {
                let (_, d) = e.decryptors_by_curve.iter_mut().next().unwrap();
                match d {
                    DecryptorsByCurveV2::Ed25519 { dh_ephemeral_public_key, .. } => dh_ephemeral_public_key.0[3] ^= 4,
                    DecryptorsByCurveV2::Secp256k1 { dh_ephemeral_public_key, .. } => dh_ephemeral_public_key.0[3] ^= 4,
                }
                "message:ephemeral-key-flip"
            }
        },
    }
}

fn fresh_call(rng: &mut Rng) -> CallMethod {
    CallMethod { address: ManifestGlobalAddress::Static(rand_global_address(rng)), method_name: rand_ident(rng), args: rand_args(rng) }
}

fn edit_instructions_v1(rng: &mut Rng, v: &mut Vec<InstructionV1>) -> &'static str {
    match rng.below(5) {
        0 if !v.is_empty() => {
            let i = rng.usize_below(v.len());
            match &mut v[i] {
                InstructionV1::CallMethod(c) => {
                    if rng.bool() {
                        c.method_name.push('z');
                        "instruction:method-name"
                    } else {
                        c.args = ManifestValue::Tuple { fields: vec![c.args.clone()] };
                        "instruction:args-wrap"
                    }
                }
                InstructionV1::CallFunction(c) => {
                    c.blueprint_name.push('z');
                    "instruction:blueprint-name"
                }
                InstructionV1::AssertWorktopContainsAny(a) => {
                    a.resource_address = rand_resource(rng);
                    "instruction:resource"
                }
                InstructionV1::ReturnToWorktop(b) => {
                    b.bucket_id.0 ^= 1;
                    "instruction:bucket-id"
                }
                other => {
                    *other = InstructionV1::CallMethod(fresh_call(rng));
                    "instruction:replace"
                }
            }
        }
        1 if !v.is_empty() => {
            let i = rng.usize_below(v.len());
            v.remove(i);
            "instruction:remove"
        }
        2 if v.len() >= 2 => {
            let i = rng.usize_below(v.len() - 1);
            v.swap(i, i + 1);
            "instruction:swap"
        }
        3 if !v.is_empty() => {
            let i = rng.usize_below(v.len());
            let c = v[i].clone();
            v.insert(i, c);
            "instruction:duplicate"
        }
        _ => {
            let at = rng.usize_below(v.len() + 1);
            v.insert(at, InstructionV1::CallMethod(fresh_call(rng)));
            "instruction:insert"
        }
    }
}

fn edit_instructions_v2(rng: &mut Rng, v: &mut Vec<InstructionV2>) -> &'static str {
    match rng.below(5) {
        0 if !v.is_empty() => {
            let i = rng.usize_below(v.len());
            match &mut v[i] {
                InstructionV2::CallMethod(c) => {
                    c.method_name.push('z');
                    "instruction:method-name"
                }
                InstructionV2::YieldToChild(y) => {
                    if rng.bool() {
                        y.child_index.0 ^= 1;
                        "instruction:yield-child-index"
                    } else {
                        y.args = ManifestValue::Tuple { fields: vec![ManifestValue::U8 { value: 1 }] };
                        "instruction:yield-child-args"
                    }
                }
                InstructionV2::YieldToParent(y) => {
                    y.args = ManifestValue::Tuple { fields: vec![ManifestValue::U8 { value: rng.u8() | 1 }, y.args.clone()] };
                    "instruction:yield-parent-args"
                }
                InstructionV2::AssertWorktopContainsAny(a) => {
                    a.resource_address = rand_resource(rng);
                    "instruction:resource"
                }
                other => {
                    *other = InstructionV2::CallMethod(fresh_call(rng));
                    "instruction:replace"
                }
            }
        }
        1 if !v.is_empty() => {
            let i = rng.usize_below(v.len());
            v.remove(i);
            "instruction:remove"
        }
        2 if v.len() >= 2 => {
            let i = rng.usize_below(v.len() - 1);
            v.swap(i, i + 1);
            "instruction:swap"
        }
        3 if !v.is_empty() => {
            let i = rng.usize_below(v.len());
            let c = v[i].clone();
            v.insert(i, c);
            "instruction:duplicate"
        }
        _ => {
            let at = rng.usize_below(v.len() + 1);
            v.insert(at, InstructionV2::CallMethod(fresh_call(rng)));
            "instruction:insert"
        }
    }
}

fn edit_intent_v1(rng: &mut Rng, i: &mut IntentV1) -> &'static str {
    match rng.below(11) {
        0 => {
            i.header.network_id ^= 1 << rng.below(8);
            "header:network_id"
        }
        1 => {
            i.header.start_epoch_inclusive = Epoch::of(i.header.start_epoch_inclusive.number() ^ (1 << rng.below(64)));
            "header:start_epoch"
        }
        2 => {
            i.header.end_epoch_exclusive = Epoch::of(i.header.end_epoch_exclusive.number() ^ (1 << rng.below(64)));
            "header:end_epoch"
        }
        3 => {
            i.header.nonce ^= 1 << rng.below(32);
            "header:nonce"
        }
        4 => {
            i.header.notary_public_key = other_key(rng, &i.header.notary_public_key);
            "header:notary_public_key"
        }
        5 => {
            i.header.notary_is_signatory = !i.header.notary_is_signatory;
            "header:notary_is_signatory"
        }
        6 => {
            i.header.tip_percentage ^= 1 << rng.below(16);
            "header:tip_percentage"
        }
        7 | 8 => edit_instructions_v1(rng, &mut i.instructions.0),
        9 => edit_blobs(rng, &mut i.blobs),
        _ => edit_message_v1(rng, &mut i.message),
    }
}

fn edit_core_v2(rng: &mut Rng, c: &mut IntentCoreV2) -> &'static str {
    match rng.below(13) {
        0 => {
            c.header.network_id ^= 1 << rng.below(8);
            "intent-header:network_id"
        }
        1 => {
            c.header.start_epoch_inclusive = Epoch::of(c.header.start_epoch_inclusive.number() ^ (1 << rng.below(64)));
            "intent-header:start_epoch"
        }
        2 => {
            c.header.end_epoch_exclusive = Epoch::of(c.header.end_epoch_exclusive.number() ^ (1 << rng.below(64)));
            "intent-header:end_epoch"
        }
        3 => {
            c.header.min_proposer_timestamp_inclusive = match c.header.min_proposer_timestamp_inclusive {
                None => Some(Instant::new(rng.u64() as i64)),
                Some(t) => if rng.bool() { None } else { Some(Instant::new(t.seconds_since_unix_epoch ^ (1 << rng.below(64)))) },
            };
            "intent-header:min_timestamp"
        }
        4 => {
            c.header.max_proposer_timestamp_exclusive = match c.header.max_proposer_timestamp_exclusive {
                None => Some(Instant::new(rng.u64() as i64)),
                Some(t) => if rng.bool() { None } else { Some(Instant::new(t.seconds_since_unix_epoch ^ (1 << rng.below(64)))) },
            };
            "intent-header:max_timestamp"
        }
        5 => {
            c.header.intent_discriminator ^= 1 << rng.below(64);
            "intent-header:intent_discriminator"
        }
        6 | 7 => edit_instructions_v2(rng, &mut c.instructions.0),
        8 => edit_blobs(rng, &mut c.blobs),
        9 => edit_message_v2(rng, &mut c.message),
        _ => {
            let kids: Vec<ChildSubintentSpecifier> = c.children.children.iter().cloned().collect();
            let (name, kids) = match rng.below(4) {
                0 if !kids.is_empty() => {
                    let mut k = kids;
                    let i = rng.usize_below(k.len());
                    let mut h = k[i].hash.0 .0;
                    h[rng.usize_below(32)] ^= 1 << rng.below(8);
                    k[i] = ChildSubintentSpecifier { hash: SubintentHash::from_hash(Hash(h)) };
                    ("children:flip-bit", k)
                }
                1 if !kids.is_empty() => {
                    let mut k = kids;
                    let i = rng.usize_below(k.len());
                    k.remove(i);
                    ("children:remove", k)
                }
                2 if kids.len() >= 2 => {
                    let mut k = kids;
                    let i = rng.usize_below(k.len() - 1);
                    k.swap(i, i + 1);
                    ("children:swap", k)
                }
                _ => {
                    let mut k = kids;
                    let at = rng.usize_below(k.len() + 1);
                    k.insert(at, ChildSubintentSpecifier { hash: SubintentHash::from_hash(Hash(rng.bytes(32).try_into().unwrap())) });
                    ("children:add", k)
                }
            };
            c.children.children = kids.into_iter().collect();
            name
        }
    }
}

fn edit_sigs(rng: &mut Rng, v: &mut Vec<IntentSignatureV1>) -> &'static str {
    match rng.below(5) {
        0 if !v.is_empty() => {
            let i = rng.usize_below(v.len());
            match &mut v[i].0 {
                SignatureWithPublicKeyV1::Secp256k1 { signature } => {
                    signature.0[rng.usize_below(65)] ^= 1 << rng.below(8);
                    "signature:secp-flip-bit"
                }
                SignatureWithPublicKeyV1::Ed25519 { public_key, signature } => {
                    if rng.bool() {
                        signature.0[rng.usize_below(64)] ^= 1 << rng.below(8);
                        "signature:ed-flip-bit"
                    } else {
                        public_key.0[rng.usize_below(32)] ^= 1 << rng.below(8);
                        "signature:ed-key-flip-bit"
                    }
                }
            }
        }
        1 if !v.is_empty() => {
            let i = rng.usize_below(v.len());
            v.remove(i);
            "signature:remove"
        }
        2 if v.len() >= 2 => {
            let i = rng.usize_below(v.len() - 1);
            v.swap(i, i + 1);
            "signature:swap"
        }
        3 if !v.is_empty() => {
            let i = rng.usize_below(v.len());
            let c = v[i].clone();
            v.push(c);
            "signature:duplicate"
        }
        _ => {
            let h = Hash(rng.bytes(32).try_into().unwrap());
            v.push(IntentSignatureV1(KeyId::random(rng).sign_with_pk(&h)));
            "signature:add"
        }
    }
}

fn edit_notary(rng: &mut Rng, s: &mut SignatureV1) -> &'static str {
    match s {
        SignatureV1::Secp256k1(x) => {
            if rng.chance(1, 6) {
                let mut e = [0u8; 64];
                e.copy_from_slice(&x.0[1..]);
                *s = SignatureV1::Ed25519(Ed25519Signature(e));
                return "notary:curve-variant";
            }
            x.0[rng.usize_below(65)] ^= 1 << rng.below(8);
            "notary:secp-flip-bit"
        }
        SignatureV1::Ed25519(x) => {
            x.0[rng.usize_below(64)] ^= 1 << rng.below(8);
            "notary:ed-flip-bit"
        }
    }
}

/// Which named hashes must change for an edit at this level
fn must_change(level: &str, name: &str) -> bool {
    match level {
        // V1 / V2 notarized
        "intent" => matches!(name, "intent" | "signed" | "notarized"),
        "signed" => matches!(name, "signed" | "notarized"),
        "notarized" => name == "notarized",
        // partial
        "root" => matches!(name, "root" | "payload"),
        "payload" => name == "payload",
        l if l.starts_with("sub") => name == l || matches!(name, "intent" | "signed" | "notarized" | "payload"),
        _ => false,
    }
}

/// One random single-field edit. Returns (edited fixture, edit name, level, compare_subs)
fn edit_fixture(rng: &mut Rng, f: &Fixture) -> Option<(Fixture, &'static str, String, bool)> {
    match f {
        Fixture::V1(t) => {
            let mut t = t.clone();
            let (name, level) = match rng.below(10) {
                0..=6 => (edit_intent_v1(rng, &mut t.signed_intent.intent), "intent"),
                7 | 8 => (edit_sigs(rng, &mut t.signed_intent.intent_signatures.signatures), "signed"),
                _ => (edit_notary(rng, &mut t.notary_signature.0), "notarized"),
            };
            Some((Fixture::V1(t), name, level.to_string(), true))
        }
        Fixture::V2(t) => {
            let mut t = t.clone();
            let n_sub = t.signed_transaction_intent.transaction_intent.non_root_subintents.0.len();
            let s = &mut t.signed_transaction_intent;
            let (name, level, subs): (&'static str, String, bool) = match rng.below(16) {
                0 => {
                    s.transaction_intent.transaction_header.notary_public_key = other_key(rng, &s.transaction_intent.transaction_header.notary_public_key);
                    ("tx-header:notary_public_key", "intent".into(), true)
                }
                1 => {
                    s.transaction_intent.transaction_header.notary_is_signatory ^= true;
                    ("tx-header:notary_is_signatory", "intent".into(), true)
                }
                2 => {
                    s.transaction_intent.transaction_header.tip_basis_points ^= 1 << rng.below(32);
                    ("tx-header:tip_basis_points", "intent".into(), true)
                }
                3..=5 => (edit_core_v2(rng, &mut s.transaction_intent.root_intent_core), "intent".into(), true),
                6..=8 if n_sub > 0 => {
                    let i = rng.usize_below(n_sub);
                    (edit_core_v2(rng, &mut s.transaction_intent.non_root_subintents.0[i].intent_core), format!("sub{i}"), true)
                }
                9 if n_sub >= 2 => {
                    let i = rng.usize_below(n_sub - 1);
                    s.transaction_intent.non_root_subintents.0.swap(i, i + 1);
                    ("subintents:swap", "intent".into(), false)
                }
                10 if n_sub >= 1 => {
                    let i = rng.usize_below(n_sub);
                    if rng.bool() {
                        s.transaction_intent.non_root_subintents.0.remove(i);
                        ("subintents:remove", "intent".into(), false)
                    } else {
                        let c = s.transaction_intent.non_root_subintents.0[i].clone();
                        s.transaction_intent.non_root_subintents.0.push(c);
                        ("subintents:duplicate", "intent".into(), false)
                    }
                }
                11 | 12 => (edit_sigs(rng, &mut s.transaction_intent_signatures.signatures), "signed".into(), true),
                13 => {
                    let b = &mut s.non_root_subintent_signatures.by_subintent;
                    if !b.is_empty() && rng.bool() {
                        let i = rng.usize_below(b.len());
                        let n = edit_sigs(rng, &mut b[i].signatures);
                        (n, "signed".into(), true)
                    } else if b.len() >= 2 && rng.bool() && b[0] != b[1] {
                        b.swap(0, 1);
                        ("sig-batches:swap", "signed".into(), true)
                    } else if !b.is_empty() && rng.bool() {
                        b.pop();
                        ("sig-batches:remove", "signed".into(), true)
                    } else {
                        b.push(IntentSignaturesV2::none());
                        ("sig-batches:add-empty", "signed".into(), true)
                    }
                }
                _ => (edit_notary(rng, &mut t.notary_signature.0), "notarized".into(), true),
            };
            Some((Fixture::V2(t), name, level, subs))
        }
        Fixture::Partial(t) => {
            let mut t = t.clone();
            let n_sub = t.partial_transaction.non_root_subintents.0.len();
            let (name, level): (&'static str, String) = match rng.below(8) {
                0..=2 => (edit_core_v2(rng, &mut t.partial_transaction.root_subintent.intent_core), "root".into()),
                3..=4 if n_sub > 0 => {
                    let i = rng.usize_below(n_sub);
                    (edit_core_v2(rng, &mut t.partial_transaction.non_root_subintents.0[i].intent_core), format!("sub{i}"))
                }
                5 | 6 => (edit_sigs(rng, &mut t.root_subintent_signatures.signatures), "payload".into()),
                _ => {
                    t.non_root_subintent_signatures.by_subintent.push(IntentSignaturesV2::none());
                    ("sig-batches:add-empty", "payload".into())
                }
            };
            Some((Fixture::Partial(t), name, level, true))
        }
        Fixture::System(t) => {
            let mut t = t.clone();
            let name = match rng.below(4) {
                0 => {
                    t.hash_for_execution.0[rng.usize_below(32)] ^= 1 << rng.below(8);
                    "system:hash_for_execution"
                }
                1 => edit_instructions_v1(rng, &mut t.instructions.0),
                2 => edit_blobs(rng, &mut t.blobs),
                _ => {
                    if t.pre_allocated_addresses.is_empty() || rng.bool() {
                        t.pre_allocated_addresses.push(PreAllocatedAddress { blueprint_id: BlueprintId { package_address: PACKAGE_PACKAGE, blueprint_name: rand_ident(rng) }, address: rand_global_address(rng) });
                        "system:pre-allocated-add"
                    } else {
                        t.pre_allocated_addresses[0].blueprint_id.blueprint_name.push('x');
                        "system:pre-allocated-blueprint"
                    }
                }
            };
            Some((Fixture::System(t), name, "system".into(), true))
        }
        Fixture::Round(t) => {
            let mut t = t.clone();
            let name = match rng.below(6) {
                0 => {
                    t.proposer_timestamp_ms ^= 1 << rng.below(64);
                    "round:timestamp"
                }
                1 => {
                    t.epoch = Epoch::of(t.epoch.number() ^ (1 << rng.below(64)));
                    "round:epoch"
                }
                2 => {
                    t.round = Round::of(t.round.number() ^ (1 << rng.below(64)));
                    "round:round"
                }
                3 => {
                    t.leader_proposal_history.current_leader ^= 1 << rng.below(8);
                    "round:current_leader"
                }
                4 => {
                    t.leader_proposal_history.is_fallback ^= true;
                    "round:is_fallback"
                }
                _ => {
                    t.leader_proposal_history.gap_round_leaders.push(rng.u8());
                    "round:gap-leaders"
                }
            };
            Some((Fixture::Round(t), name, "round".into(), true))
        }
        Fixture::Flash(t) => {
            let mut t = t.clone();
            let name = if rng.bool() {
                t.name.push('x');
                "flash:name"
            } else {
                t.state_updates.by_node.insert(rand_global_address(rng).into_node_id(), NodeStateUpdates::Delta { by_partition: IndexMap::new() });
                "flash:state-updates"
            };
            Some((Fixture::Flash(t), name, "flash".into(), true))
        }
    }
}

fn main_payload(f: &Fixture, ledger: bool) -> (Kind, Vec<u8>) {
    let all = payloads(f, ledger);
    let pick = if ledger { all.iter().find(|p| p.0 == Kind::Ledger) } else { None };
    let p = pick.unwrap_or(&all[0]);
    (p.0, p.1.clone())
}

fn check_sensitivity(shard: &mut Shard, rng: &mut Rng, f: &Fixture) {
    let Some((g, name, level, compare_subs)) = edit_fixture(rng, f) else { return };
    let ledger = rng.chance(1, 4) && !matches!(f, Fixture::Partial(_));
    let (kind, raw_a) = main_payload(f, ledger);
    let (_, raw_b) = main_payload(&g, ledger);
    shard.eval();
    if raw_a == raw_b {
        shard.count("sensitivity:identity_edits");
        return;
    }
    let s = settings();
    let (Ok(ha), hb) = (prepare_hashes(kind, &raw_a, s), prepare_hashes(kind, &raw_b, s)) else {
        shard.violation("sensitivity:original-does-not-prepare", json!({"check": "sensitivity", "kind": kind.name(), "raw": hex(&raw_a)}));
        return;
    };
    let hb = match hb {
        Ok(h) => h,
        Err(e) => {
            shard.count("sensitivity:edited_not_preparable");
            shard.seen("sensitivity:edited_not_preparable_reasons", &format!("{name}: {}", prepare_err_class(&e)));
            return;
        }
    };
    shard.count("sensitivity:edits");
    shard.seen("sensitivity:edit_names", name);
    shard.seen("sensitivity:levels", &format!("{}:{}", kind.name(), if level.starts_with("sub") { "sub" } else { level.as_str() }));
    shard.nontrivial(&(kind, name, h64(&raw_b)));
    let single = matches!(level.as_str(), "system" | "round" | "flash");
    for (n, a) in &ha {
        if n.starts_with("sub") && !compare_subs {
            continue;
        }
        let Some((_, b)) = hb.iter().find(|(m, _)| m == n) else { continue };
        let covered = if single { true } else if n == "ledger" { true } else { must_change(&level, n) };
        if covered && a == b {
            shard.violation(
                format!("sensitivity:{name}:covering-hash-unchanged:{}", if n.starts_with("sub") { "sub" } else { n.as_str() }),
                json!({"check": "sensitivity", "kind": kind.name(), "edit": name, "level": level, "hash": n, "raw": hex(&raw_a), "raw_edited": hex(&raw_b)}),
            );
        }
        if !covered && a != b {
            shard.violation(
                format!("sensitivity:{name}:non-covering-hash-changed:{}", if n.starts_with("sub") { "sub" } else { n.as_str() }),
                json!({"check": "sensitivity", "kind": kind.name(), "edit": name, "level": level, "hash": n, "raw": hex(&raw_a), "raw_edited": hex(&raw_b)}),
            );
        }
        shard.count(if covered { "sensitivity:covering_hashes_checked" } else { "sensitivity:non_covering_hashes_checked" });
    }
}

// ---------------------------------------------------------------------------------------------
// N + M: non-canonical payloads and arbitrary mutations
// ---------------------------------------------------------------------------------------------
/// `bytes` must be rejected by prepare and by from_raw
fn expect_rejected(shard: &mut Shard, kind: Kind, class: &str, original: &[u8], bytes: &[u8], s: &PreparationSettings) {
    shard.eval();
    shard.count("noncanonical:cases");
    shard.seen("noncanonical:classes", class);
    shard.nontrivial(&(kind, class, h64(bytes)));
    let p = prepare_hashes(kind, bytes, s);
    let d = reencode(kind, bytes);
    match &p {
        Err(e) => shard.seen("noncanonical:prepare_errors", &prepare_err_class(e)),
        Ok(_) => shard.violation(
            format!("noncanonical:{class}:accepted-by-prepare:{}", kind.name()),
            json!({"check": "noncanonical", "class": class, "kind": kind.name(), "raw": hex(bytes), "original": hex(original)}),
        ),
    }
    if d.is_ok() {
        shard.violation(
            format!("noncanonical:{class}:accepted-by-from_raw:{}", kind.name()),
            json!({"check": "noncanonical", "class": class, "kind": kind.name(), "raw": hex(bytes), "original": hex(original)}),
        );
    }
}

/// prepare ok ⇒ canonical (decode/encode identity, same hashes) and a different top-level hash
fn check_mutant(shard: &mut Shard, kind: Kind, original: &[u8], original_top: &Hash, bytes: &[u8], class: &str) {
    let s = settings();
    shard.eval();
    shard.count("mutation:cases");
    match prepare_hashes(kind, bytes, s) {
        Err(e) => {
            shard.count("mutation:rejected");
            shard.nontrivial(&(kind, "mut", prepare_err_class(&e), bytes.len() % 64));
        }
        Ok(h) => {
            shard.count("mutation:prepared");
            shard.nontrivial(&(kind, "mut-ok", h64(bytes)));
            let detail = |what: &str| json!({"check": "mutation", "class": class, "kind": kind.name(), "raw": hex(bytes), "original": hex(original), "what": what});
            match reencode(kind, bytes) {
                Err(e) => shard.violation(format!("mutation:prepared-but-from_raw-fails:{}", kind.name()), detail(&e)),
                Ok(b) => {
                    if b != bytes {
                        shard.violation(format!("mutation:prepared-payload-is-not-canonical:{}", kind.name()), detail("decode → encode gives other bytes"));
                    } else if prepare_hashes(kind, &b, s).ok().as_ref() != Some(&h) {
                        shard.violation(format!("mutation:re-encoding-changes-hashes:{}", kind.name()), detail(""));
                    }
                }
            }
            if top_hash(&h) == *original_top {
                shard.violation(format!("mutation:different-bytes-same-identifier:{}", kind.name()), detail("top-level hash equals the unmutated payload's"));
            }
        }
    }
}

/// Structure-aware mutant (an element of an SBOR array / map duplicated or swapped): rejected by
/// prepare, or canonical (from_raw ok, re-encoding reproduces the mutant, same hashes) with a
/// top-level hash different from the unmutated payload's.
fn check_structural(shard: &mut Shard, kind: Kind, original: &[u8], original_top: &Hash, bytes: &[u8], class: &str, path: &str) {
    let s = settings();
    shard.eval();
    shard.count("structural:cases");
    shard.seen("structural:classes", class);
    shard.seen(&format!("structural:paths:{}", kind.name()), path);
    match prepare_hashes(kind, bytes, s) {
        Err(e) => {
            shard.count(&format!("structural:{}:rejected", kind.name()));
            shard.seen("structural:prepare_errors", &prepare_err_class(&e));
            shard.nontrivial(&(kind, class, path, prepare_err_class(&e)));
        }
        Ok(h) => {
            shard.nontrivial(&(kind, class, path, "ok"));
            let detail = |what: &str| json!({"check": "mutation", "class": class, "path": path, "kind": kind.name(), "raw": hex(bytes), "original": hex(original), "what": what});
            let mut good = true;
            match reencode(kind, bytes) {
                Err(e) => {
                    good = false;
                    shard.violation(format!("noncanonical:{class}:accepted-but-not-reencodable:{}:{path}", kind.name()), detail(&e))
                }
                Ok(b) => {
                    if b != bytes {
                        good = false;
                        shard.violation(format!("noncanonical:{class}:accepted-but-not-reencodable:{}:{path}", kind.name()), detail("prepare accepts the payload but decode → encode gives other bytes"));
                    } else if prepare_hashes(kind, &b, s).ok().as_ref() != Some(&h) {
                        good = false;
                        shard.violation(format!("noncanonical:{class}:re-encoding-changes-hashes:{}:{path}", kind.name()), detail(""));
                    }
                }
            }
            if top_hash(&h) == *original_top {
                good = false;
                shard.violation(format!("noncanonical:{class}:different-bytes-same-identifier:{}:{path}", kind.name()), detail("top-level hash equals the unmutated payload's"));
            }
            if good {
                shard.count(&format!("structural:{}:accepted_and_round_trips", kind.name()));
                shard.seen("structural:round_tripping_paths", &format!("{}:{class}:{path}", kind.name()));
            }
        }
    }
}

fn check_noncanonical(shard: &mut Shard, rng: &mut Rng, kind: Kind, raw: &[u8]) {
    let s = settings();
    let Ok(orig) = prepare_hashes(kind, raw, s) else { return };
    let top = top_hash(&orig);
    // trailing bytes
    let n_extra = 1 + rng.usize_below(4);
    for extra in [vec![0u8], vec![rng.u8()], rng.bytes(n_extra)] {
        let mut b = raw.to_vec();
        b.extend_from_slice(&extra);
        expect_rejected(shard, kind, "trailing-bytes", raw, &b, s);
    }
    // wrong payload prefix
    for p in [0x5cu8, 0x00, 0x4c, rng.u8()] {
        if p != raw[0] {
            let mut b = raw.to_vec();
            b[0] = p;
            expect_rejected(shard, kind, "payload-prefix", raw, &b, s);
        }
    }
    // root value kind
    {
        let mut b = raw.to_vec();
        b[1] = if b[1] == 0x22 { 0x21 } else { 0x22 };
        expect_rejected(shard, kind, "root-value-kind", raw, &b, s);
    }
    // every other transaction discriminator
    for d in 0u8..=17 {
        if d != raw[2] {
            // the version dispatcher legitimately knows two discriminators; switching between
            // them changes the expected body, which then has to fail as well
            let mut b = raw.to_vec();
            b[2] = d;
            expect_rejected(shard, kind, "discriminator", raw, &b, s);
        }
    }
    // padded sizes
    if let Some(layout) = sborwalk::layout(raw) {
        shard.count("noncanonical:payloads_walked");
        let mut idx: Vec<usize> = (0..layout.sizes.len()).collect();
        rng.shuffle(&mut idx);
        for i in idx.into_iter().take(10) {
            if let Some(b) = sborwalk::pad_size(raw, layout.sizes[i]) {
                expect_rejected(shard, kind, "padded-size", raw, &b, s);
            }
        }
        // structure-aware: duplicated / swapped elements of arrays and maps
        let mut cidx: Vec<usize> = (0..layout.colls.len()).filter(|i| !layout.colls[*i].elems.is_empty()).collect();
        rng.shuffle(&mut cidx);
        for ci in cidx.into_iter().take(16) {
            let c = &layout.colls[ci];
            let i = rng.usize_below(c.elems.len());
            let b = sborwalk::duplicate_element(raw, c, i);
            check_structural(shard, kind, raw, &top, &b, if c.is_map { "duplicated-map-entry" } else { "duplicated-collection-element" }, &c.path);
            if c.elems.len() >= 2 {
                let i = rng.usize_below(c.elems.len() - 1);
                if let Some(b) = sborwalk::swap_elements(raw, c, i) {
                    check_structural(shard, kind, raw, &top, &b, "swapped-collection-elements", &c.path);
                }
            }
        }
        // inner discriminators / value kinds: plain mutants
        for _ in 0..4 {
            if !layout.discriminators.is_empty() {
                let at = *rng.pick(&layout.discriminators);
                let mut b = raw.to_vec();
                b[at] = b[at].wrapping_add(1 + rng.below(3) as u8);
                check_mutant(shard, kind, raw, &top, &b, "inner-discriminator");
            }
            if !layout.sizes.is_empty() {
                let (at, _, _) = *rng.pick(&layout.sizes);
                let mut b = raw.to_vec();
                b[at] = if rng.bool() { b[at].wrapping_add(1) } else { b[at].wrapping_sub(1) };
                check_mutant(shard, kind, raw, &top, &b, "size±1");
            }
        }
    } else {
        shard.count("noncanonical:walker_failed");
    }
    // arbitrary mutations
    for _ in 0..24 {
        let mut b = raw.to_vec();
        let class = match rng.below(6) {
            0 | 1 | 2 => {
                let at = rng.usize_below(b.len());
                b[at] ^= 1 << rng.below(8);
                "bit-flip"
            }
            3 => {
                let at = rng.usize_below(b.len());
                b[at] = rng.u8();
                "byte-set"
            }
            4 => {
                let at = rng.usize_below(b.len() + 1);
                b.insert(at, rng.u8());
                "byte-insert"
            }
            _ => {
                let at = rng.usize_below(b.len());
                b.remove(at);
                "byte-delete"
            }
        };
        if b != raw {
            check_mutant(shard, kind, raw, &top, &b, class);
        }
    }
    // truncation
    let cut = rng.usize_below(raw.len());
    expect_rejected(shard, kind, "truncated", raw, &raw[..cut], s);
}

/// Over-limit sizes per PreparationSettings: limit accepted, limit+1 rejected
fn check_limits(shard: &mut Shard, rng: &mut Rng) {
    let notary = KeyId::random(rng);
    let base = PreparationSettings::latest();
    let mut expect = |shard: &mut Shard, kind: Kind, raw: &[u8], s: &PreparationSettings, ok: bool, class: &str| {
        shard.eval();
        shard.count("limits:cases");
        shard.seen("limits:classes", &format!("{class}:{}", if ok { "at-limit" } else { "over-limit" }));
        shard.nontrivial(&(kind, class, ok, raw.len()));
        let r = prepare_hashes(kind, raw, s);
        if r.is_ok() != ok {
            let sig = if ok { format!("limits:{class}:at-limit-rejected") } else { format!("limits:{class}:over-limit-accepted") };
            shard.violation(sig, json!({"check": "limits", "class": class, "kind": kind.name(), "raw": hex(raw), "settings": format!("{s:?}"), "result": format!("{:?}", r.err())}));
        }
    };
    match rng.below(6) {
        0 => {
            // blobs
            let limit = rng.usize_below(5);
            let s = PreparationSettings { max_blobs: limit, ..base };
            for (n, ok) in [(limit, true), (limit + 1, false)] {
                let mut intent = rand_intent_v1(rng, notary, 3);
                intent.blobs = BlobsV1 { blobs: (0..n).map(|i| BlobV1(vec![i as u8; 1 + i])).collect() };
                let tx = build_v1(intent, &[], notary);
                expect(shard, Kind::NotarizedV1, &raw_of(&tx), &s, ok, "max_blobs");
                expect(shard, Kind::IntentV1, &raw_of(&tx.signed_intent.intent), &s, ok, "max_blobs");
            }
        }
        1 => {
            // children per intent
            let limit = rng.usize_below(5);
            let s = PreparationSettings { max_child_subintents_per_intent: limit, ..base };
            for (n, ok) in [(limit, true), (limit + 1, false)] {
                let mut ti = rand_tx_intent_v2(rng, notary, 0, 3, 2);
                ti.root_intent_core.children.children = (0..n).map(|_| ChildSubintentSpecifier { hash: SubintentHash::from_hash(Hash(rng.bytes(32).try_into().unwrap())) }).collect();
                expect(shard, Kind::TxIntentV2, &raw_of(&ti), &s, ok, "max_child_subintents_per_intent");
            }
        }
        2 => {
            // subintents per transaction / signature batches
            let limit = rng.usize_below(4);
            let s = PreparationSettings { max_subintents_per_transaction: limit, ..base };
            for (n, ok) in [(limit, true), (limit + 1, false)] {
                let mut ti = rand_tx_intent_v2(rng, notary, 0, 3, 2);
                let leaf = rand_tx_intent_v2(rng, notary, 1, 3, 2).non_root_subintents.0[0].clone();
                ti.non_root_subintents.0 = (0..n).map(|_| leaf.clone()).collect();
                expect(shard, Kind::TxIntentV2, &raw_of(&ti), &s, ok, "max_subintents_per_transaction");
                let mut ti2 = ti.clone();
                ti2.non_root_subintents.0.clear();
                let signed = SignedTransactionIntentV2 { transaction_intent: ti2, transaction_intent_signatures: IntentSignaturesV2::none(), non_root_subintent_signatures: NonRootSubintentSignaturesV2 { by_subintent: (0..n).map(|_| IntentSignaturesV2::none()).collect() } };
                expect(shard, Kind::SignedTxIntentV2, &raw_of(&signed), &s, ok, "max_subintents_per_transaction(signature-batches)");
            }
        }
        3 => {
            // user payload length
            let tx = build_v1(rand_intent_v1(rng, notary, 4), &[], notary);
            let raw = raw_of(&tx);
            for (limit, ok) in [(raw.len(), true), (raw.len() - 1, false)] {
                let s = PreparationSettings { max_user_payload_length: limit, ..base };
                expect(shard, Kind::NotarizedV1, &raw, &s, ok, "max_user_payload_length");
                expect(shard, Kind::UserAny, &raw, &s, ok, "max_user_payload_length");
            }
        }
        4 => {
            // ledger payload length
            let tx = build_v1(rand_intent_v1(rng, notary, 4), &[], notary);
            let raw = raw_of(&LedgerTransaction::UserV1(Box::new(tx)));
            for (limit, ok) in [(raw.len(), true), (raw.len() - 1, false)] {
                let s = PreparationSettings { max_ledger_payload_length: limit, ..base };
                expect(shard, Kind::Ledger, &raw, &s, ok, "max_ledger_payload_length");
            }
        }
        _ => {
            // V2 payloads when V2 is not permitted
            let ti = rand_tx_intent_v2(rng, notary, 1, 3, 2);
            let tx = build_v2(ti, &[], &[], notary);
            for (permitted, ok) in [(true, true), (false, false)] {
                let s = PreparationSettings { v2_transactions_permitted: permitted, ..base };
                expect(shard, Kind::NotarizedV2, &raw_of(&tx), &s, ok, "v2_transactions_permitted");
                expect(shard, Kind::SubintentV2, &raw_of(&tx.signed_transaction_intent.transaction_intent.non_root_subintents.0[0]), &s, ok, "v2_transactions_permitted");
                expect(shard, Kind::Ledger, &raw_of(&LedgerTransaction::UserV2(Box::new(tx.clone()))), &s, ok, "v2_transactions_permitted");
            }
        }
    }
}

/// Diagnostic: what happens to a duplicated child hash (not a check)
pub fn probe_children() -> i32 {
    let mut rng = Rng::new(7);
    let mut seen = std::collections::BTreeMap::new();
    for _ in 0..300 {
        let f = rich_fixture(&mut rng);
        for (kind, raw, _) in payloads(&f, true) {
            let Some(l) = sborwalk::layout(&raw) else { continue };
            for c in &l.colls {
                if c.elems.is_empty() || c.is_map {
                    continue;
                }
                // children arrays: elements are 34-byte bodies (07 20 + 32 bytes)
                if c.elems.iter().all(|(a, b)| b - a == 34 && raw[*a] == 0x07 && raw[*a + 1] == 0x20) {
                    let m = sborwalk::duplicate_element(&raw, c, 0);
                    let p = prepare_hashes(kind, &m, settings()).map(|_| "ok".to_string()).unwrap_or_else(|e| prepare_err_class(&e));
                    let d = reencode(kind, &m).map(|b| if b == m { "same".to_string() } else { "differs".to_string() }).unwrap_or_else(|e| e);
                    *seen.entry(format!("{} {} prepare={p} from_raw={d}", kind.name(), c.path)).or_insert(0) += 1;
                }
            }
        }
    }
    for (k, v) in seen {
        println!("{v:5} {k}");
    }
    0
}

pub fn run(args: &Args) -> i32 {
    let spec = Spec::new(
        "C32",
        "exploration",
        "R: prepare(raw(typed)) hashes = reference composition, from_raw→to_raw identity, same hashes in every context; S: each typed single-field edit changes exactly the hashes that cover the field; N: trailing bytes / wrong prefix / wrong discriminator / wrong root kind / padded sizes / over-limit values rejected by prepare and from_raw; M: a mutated payload that prepares is canonical and has a different top-level hash",
    )
    .assume("blake2b-256 (`hash`) and the Manifest SBOR encoder of individual fields are trusted primitives of the reference composition (C20/C48 cover them)")
    .assume("an edit counts only if it changes the encoded bytes (order of order-preserving maps is content)")
    .floor("roundtrip:payloads", args.tier.pick(60_000, 1_000_000))
    .floor("sensitivity:edits", args.tier.pick(100_000, 2_000_000))
    .floor("noncanonical:cases", args.tier.pick(300_000, 5_000_000))
    .floor("mutation:prepared", args.tier.pick(2_000, 40_000))
    .floor("limits:cases", args.tier.pick(2_000, 40_000))
    .floor("structural:cases", args.tier.pick(100_000, 1_500_000))
    .floor("structural:NotarizedV2:rejected", args.tier.pick(2_000, 30_000))
    .floor("structural:SubintentV2:rejected", args.tier.pick(1_000, 15_000))
    .explain("Fixtures: V1 notarized (0-3 signers), V2 notarized (0-3 subintents, signatures), signed partial, system, round update, flash transactions and their ledger wrappers; every payload view (intent, signed intent, subintent, partial, ledger, user dispatch).");
    if let Some(path) = &args.replay {
        return replay(args, spec, path);
    }
    let mut report = Report::new(args, spec);
    keys();
    let cap = scaled(args, args.tier.pick(40_000, 1_000_000));
    report.run_shards(32_01, args.threads, Duration::from_secs(budget_secs(args.tier, 45, 700)), |_idx, rng, shard| {
        let mut done = 0;
        while done < cap && !shard.time_up() {
            done += 1;
            let f = rand_fixture(rng);
            let ps = payloads(&f, true);
            for (kind, raw, reference) in &ps {
                check_roundtrip(shard, *kind, raw, reference);
            }
            for _ in 0..12 {
                check_sensitivity(shard, rng, &f);
            }
            let (kind, raw, _) = rng.pick(&ps).clone();
            check_noncanonical(shard, rng, kind, &raw);
            if done % 4 == 0 {
                check_limits(shard, rng);
            }
            if shard.want_sample() && shard.index == 0 {
                shard.sample(|| json!({"fixture": variant_name(&f), "payload_views": ps.iter().map(|p| format!("{}:{}B", p.0.name(), p.1.len())).collect::<Vec<_>>()}));
            }
        }
    });
    report.finish()
}

fn replay(args: &Args, spec: Spec, path: &std::path::Path) -> i32 {
    let mut report = Report::new(args, spec);
    report.spec.floors.clear();
    let doc: Value = serde_json::from_str(&std::fs::read_to_string(path).expect("read replay")).expect("replay json");
    let d = doc.get("detail").cloned().unwrap_or(Value::Null);
    let kind = Kind::from_name(d.get("kind").and_then(|k| k.as_str()).unwrap_or("")).expect("replay: kind");
    let raw = unhex(d.get("raw").and_then(|k| k.as_str()).unwrap_or(""));
    let check = d.get("check").and_then(|k| k.as_str()).unwrap_or("");
    let mut shard = Shard::new(0, "C32", args.tier, std::time::Instant::now() + Duration::from_secs(60));
    let s = settings();
    println!("REPLAY C32 [{check}] kind={} prepare={:?} from_raw={}", kind.name(), prepare_hashes(kind, &raw, s).map(|h| h.len()).map_err(|e| prepare_err_class(&e)), reencode(kind, &raw).map(|b| b == raw).map(|same| format!("ok, re-encoding identical={same}")).unwrap_or_else(|e| format!("error {e}")));
    match check {
        "noncanonical" => {
            let original = unhex(d.get("original").and_then(|k| k.as_str()).unwrap_or(""));
            expect_rejected(&mut shard, kind, d.get("class").and_then(|k| k.as_str()).unwrap_or("?"), &original, &raw, s);
        }
        "mutation" => {
            let original = unhex(d.get("original").and_then(|k| k.as_str()).unwrap_or(""));
            if let Ok(h) = prepare_hashes(kind, &original, s) {
                check_mutant(&mut shard, kind, &original, &top_hash(&h), &raw, "replay");
            }
        }
        "sensitivity" => {
            let edited = unhex(d.get("raw_edited").and_then(|k| k.as_str()).unwrap_or(""));
            let (a, b) = (prepare_hashes(kind, &raw, s), prepare_hashes(kind, &edited, s));
            println!("REPLAY C32: original hashes {:?}\nREPLAY C32: edited hashes   {:?}", a.as_ref().map(|h| h.iter().map(|(n, x)| format!("{n}={}", &hex32(x)[..12])).collect::<Vec<_>>()).map_err(|e| format!("{e:?}")), b.as_ref().map(|h| h.iter().map(|(n, x)| format!("{n}={}", &hex32(x)[..12])).collect::<Vec<_>>()).map_err(|e| format!("{e:?}")));
            if let (Ok(a), Ok(b), Some(hn)) = (a, b, d.get("hash").and_then(|k| k.as_str())) {
                let x = a.iter().find(|(n, _)| n == hn).map(|x| x.1);
                let y = b.iter().find(|(n, _)| n == hn).map(|x| x.1);
                let sig = doc.get("signature").and_then(|k| k.as_str()).unwrap_or("");
                let still = if sig.contains("covering-hash-unchanged") && !sig.contains("non-covering") { x == y } else { x != y };
                if still {
                    shard.violation(sig.to_string(), d.clone());
                }
            }
        }
        _ => {
            // round trip: only the byte-level parts can be replayed without the typed fixture
            match reencode(kind, &raw) {
                Ok(b) if b == raw => {}
                _ => shard.violation(doc.get("signature").and_then(|k| k.as_str()).unwrap_or("roundtrip").to_string(), d.clone()),
            }
        }
    }
    shard.eval();
    shard.nontrivial(&1u8);
    shard.nontrivial(&2u8);
    report.merge(shard);
    report.finish()
}
