//! A small stand-alone walker over Manifest SBOR payloads that reports where *size fields* and
//! enum discriminators sit (workload generation for non-canonical encodings). Written from the
//! SBOR wire format description, it does not use the sbor crate.

#[derive(Clone, Debug, Default)]
pub struct Layout {
    /// (offset, encoded length in bytes, value)
    pub sizes: Vec<(usize, usize, usize)>,
    /// offsets of enum discriminator bytes
    pub discriminators: Vec<usize>,
    /// offsets of value-kind bytes
    pub kinds: Vec<usize>,
    /// arrays (other than byte arrays) and maps with the byte range of every element / entry
    pub colls: Vec<Coll>,
}

#[derive(Clone, Debug)]
pub struct Coll {
    /// tuple/enum field indices from the root, array elements as `*`, map keys/values as `k`/`v`
    pub path: String,
    pub is_map: bool,
    pub size_off: usize,
    pub size_len: usize,
    /// [start, end) of each element body (arrays) or key+value pair (maps)
    pub elems: Vec<(usize, usize)>,
}

struct W<'a> {
    b: &'a [u8],
    p: usize,
    out: Layout,
    path: Vec<String>,
}

impl<'a> W<'a> {
    fn byte(&mut self) -> Option<u8> {
        let x = *self.b.get(self.p)?;
        self.p += 1;
        Some(x)
    }
    fn skip(&mut self, n: usize) -> Option<()> {
        if self.p + n > self.b.len() {
            return None;
        }
        self.p += n;
        Some(())
    }
    fn size(&mut self) -> Option<usize> {
        let start = self.p;
        let mut v = 0usize;
        let mut shift = 0;
        loop {
            let x = self.byte()?;
            v |= ((x & 0x7f) as usize) << shift;
            if x < 0x80 {
                break;
            }
            shift += 7;
            if shift >= 28 {
                return None;
            }
        }
        self.out.sizes.push((start, self.p - start, v));
        Some(v)
    }
    fn value(&mut self, depth: usize) -> Option<()> {
        self.out.kinds.push(self.p);
        let k = self.byte()?;
        self.body(k, depth)
    }
    fn body(&mut self, k: u8, depth: usize) -> Option<()> {
        if depth > 80 {
            return None;
        }
        match k {
            0x01 | 0x02 | 0x07 => self.skip(1),
            0x03 | 0x08 => self.skip(2),
            0x04 | 0x09 => self.skip(4),
            0x05 | 0x0a => self.skip(8),
            0x06 | 0x0b => self.skip(16),
            0x0c => {
                let n = self.size()?;
                self.skip(n)
            }
            0x20 => {
                let ek = self.byte()?;
                let size_off = self.p;
                let n = self.size()?;
                let size_len = self.p - size_off;
                if ek == 0x07 || ek == 0x02 {
                    return self.skip(n);
                }
                let mut elems = vec![];
                self.path.push("*".into());
                for _ in 0..n {
                    let st = self.p;
                    self.body(ek, depth + 1)?;
                    elems.push((st, self.p));
                }
                self.path.pop();
                self.out.colls.push(Coll { path: self.path.join("."), is_map: false, size_off, size_len, elems });
                Some(())
            }
            0x21 => {
                let n = self.size()?;
                for i in 0..n {
                    self.path.push(i.to_string());
                    self.value(depth + 1)?;
                    self.path.pop();
                }
                Some(())
            }
            0x22 => {
                self.out.discriminators.push(self.p);
                let d = self.byte()?;
                let n = self.size()?;
                for i in 0..n {
                    self.path.push(format!("e{d}:{i}"));
                    self.value(depth + 1)?;
                    self.path.pop();
                }
                Some(())
            }
            0x23 => {
                let kk = self.byte()?;
                let vk = self.byte()?;
                let size_off = self.p;
                let n = self.size()?;
                let size_len = self.p - size_off;
                let mut elems = vec![];
                for _ in 0..n {
                    let st = self.p;
                    self.path.push("k".into());
                    self.body(kk, depth + 1)?;
                    self.path.pop();
                    self.path.push("v".into());
                    self.body(vk, depth + 1)?;
                    self.path.pop();
                    elems.push((st, self.p));
                }
                self.out.colls.push(Coll { path: self.path.join("."), is_map: true, size_off, size_len, elems });
                Some(())
            }
            // manifest custom values
            0x80 => match self.byte()? {
                0 => self.skip(30),
                1 => self.skip(4),
                _ => None,
            },
            0x81 | 0x82 | 0x88 => self.skip(4),
            0x83 => self.skip(1),
            0x84 => self.skip(32),
            0x85 => self.skip(24),
            0x86 => self.skip(32),
            0x87 => match self.byte()? {
                0 | 2 => {
                    let n = self.size()?;
                    self.skip(n)
                }
                1 => self.skip(8),
                3 => self.skip(32),
                _ => None,
            },
            _ => None,
        }
    }
}

/// Walks a full payload (prefix byte + one value). None if the walker cannot make sense of it.
pub fn layout(payload: &[u8]) -> Option<Layout> {
    let mut w = W { b: payload, p: 1, out: Layout::default(), path: vec![] };
    if payload.is_empty() {
        return None;
    }
    w.value(0)?;
    if w.p != payload.len() {
        return None;
    }
    Some(w.out)
}

/// Re-encodes the size at `idx` of the layout in a padded (non-canonical) LEB128 form that
/// denotes the same number: the last group gets a continuation bit and a 0x00 group follows.
pub fn pad_size(payload: &[u8], at: (usize, usize, usize)) -> Option<Vec<u8>> {
    let (off, len, _) = at;
    if len >= 4 {
        return None;
    }
    let mut out = payload[..off + len].to_vec();
    let last = out.len() - 1;
    out[last] |= 0x80;
    out.push(0x00);
    out.extend_from_slice(&payload[off + len..]);
    Some(out)
}

fn leb(mut n: usize) -> Vec<u8> {
    let mut out = vec![];
    loop {
        let g = (n & 0x7f) as u8;
        n >>= 7;
        if n == 0 {
            out.push(g);
            return out;
        }
        out.push(g | 0x80);
    }
}

/// Element / entry `i` of the collection appears twice in a row, the count is raised by one.
pub fn duplicate_element(payload: &[u8], c: &Coll, i: usize) -> Vec<u8> {
    let (st, en) = c.elems[i];
    let mut out = payload[..c.size_off].to_vec();
    out.extend_from_slice(&leb(c.elems.len() + 1));
    out.extend_from_slice(&payload[c.size_off + c.size_len..en]);
    out.extend_from_slice(&payload[st..en]);
    out.extend_from_slice(&payload[en..]);
    out
}

/// Elements / entries `i` and `i + 1` change places (None if they are byte-identical).
pub fn swap_elements(payload: &[u8], c: &Coll, i: usize) -> Option<Vec<u8>> {
    let (a0, a1) = c.elems[i];
    let (b0, b1) = c.elems[i + 1];
    if payload[a0..a1] == payload[b0..b1] {
        return None;
    }
    let mut out = payload[..a0].to_vec();
    out.extend_from_slice(&payload[b0..b1]);
    out.extend_from_slice(&payload[a0..a1]);
    out.extend_from_slice(&payload[b1..]);
    Some(out)
}
