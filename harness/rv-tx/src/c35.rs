//! C35: subintent structure validation accepts only well-formed trees.
//!
//! Verdict-bearing direction: *accepted ⇒ the independent graph check passes*. The converse
//! (graph check passes ⇒ accepted) is recorded per error class but never a violation.
//!
//! Two workloads:
//!  * mock `IntentTreeStructure` implementations driven straight into
//!    `TransactionValidator::validate_intents_and_structure` - this is the only way to present
//!    hash-infeasible shapes (self loops, 2-cycles, island cycles) to the validator;
//!  * real `NotarizedTransactionV2` / `SignedPartialTransactionV2` models assembled field by
//!    field (DAG-feasible corruptions: shared / missing / duplicated children, islands, depth
//!    limit ±1, YIELD count mismatches) through prepare + full validation.
use crate::gen::*;
use radix_common::prelude::*;
use radix_transactions::errors::*;
use radix_transactions::prelude::*;
use radix_transactions::validation::*;
use rv_common::*;
use serde_json::{json, Value};
use std::time::Duration;

// ---------------------------------------------------------------------------------------------
// The abstract shape both workloads are described in (node 0 = root, nodes 1.. = non-root
// subintents in list order). `id` is the identity (hash label); equal ids = same subintent.
// ---------------------------------------------------------------------------------------------
#[derive(Clone, Debug)]
pub struct Node {
    pub id: u64,
    /// declared children by id (ids that no listed subintent carries = missing child)
    pub children: Vec<u64>,
    /// number of YIELD_TO_CHILD per entry of `children`
    pub child_yields: Vec<usize>,
    /// number of YIELD_TO_PARENT
    pub parent_yields: usize,
}

#[derive(Clone, Debug)]
pub struct Shape {
    pub root_is_subintent: bool,
    pub max_subintent_depth: usize,
    pub nodes: Vec<Node>,
}

impl Shape {
    pub fn to_json(&self) -> Value {
        json!({
            "root_is_subintent": self.root_is_subintent,
            "max_subintent_depth": self.max_subintent_depth,
            "nodes": self.nodes.iter().map(|n| json!({"id": n.id, "children": n.children, "child_yields": n.child_yields, "parent_yields": n.parent_yields})).collect::<Vec<_>>(),
        })
    }
    pub fn from_json(v: &Value) -> Option<Shape> {
        let nodes = v.get("nodes")?.as_array()?.iter().map(|n| {
            Some(Node {
                id: n.get("id")?.as_u64()?,
                children: n.get("children")?.as_array()?.iter().map(|x| x.as_u64().unwrap_or(0)).collect(),
                child_yields: n.get("child_yields")?.as_array()?.iter().map(|x| x.as_u64().unwrap_or(0) as usize).collect(),
                parent_yields: n.get("parent_yields")?.as_u64()? as usize,
            })
        }).collect::<Option<Vec<_>>>()?;
        Some(Shape {
            root_is_subintent: v.get("root_is_subintent")?.as_bool()?,
            max_subintent_depth: v.get("max_subintent_depth")?.as_u64()? as usize,
            nodes,
        })
    }
}

// ---------------------------------------------------------------------------------------------
// Oracle: written from the property text, deliberately with different algorithms than the
// validator (edge list + parent pointers walked upwards instead of a work list from the root).
// Returns the list of clauses that fail (empty = well formed).
// ---------------------------------------------------------------------------------------------
pub fn oracle(shape: &Shape) -> Vec<&'static str> {
    let mut bad = vec![];
    let n = shape.nodes.len();
    let root_id = shape.nodes[0].id;
    // (1) pairwise distinct subintents
    for i in 1..n {
        for j in (i + 1)..n {
            if shape.nodes[i].id == shape.nodes[j].id {
                bad.push("duplicate-subintent");
            }
        }
    }
    // root identity re-used by a non-root subintent (only meaningful when the root is a subintent)
    if shape.root_is_subintent && (1..n).any(|i| shape.nodes[i].id == root_id) {
        bad.push("root-identity-reused");
    }
    // edge list (parent index, child id, yields)
    let mut edges: Vec<(usize, u64, usize)> = vec![];
    for (pi, p) in shape.nodes.iter().enumerate() {
        for (k, c) in p.children.iter().enumerate() {
            edges.push((pi, *c, p.child_yields.get(k).copied().unwrap_or(0)));
        }
    }
    // (2) every declared child is present
    for (_, c, _) in &edges {
        if !(1..n).any(|i| shape.nodes[i].id == *c) {
            bad.push("declared-child-missing");
        }
    }
    // (3) every non-root subintent is the child of exactly one intent
    let mut parent_of: Vec<Option<usize>> = vec![None; n];
    for i in 1..n {
        let incoming: Vec<usize> = edges.iter().filter(|(_, c, _)| *c == shape.nodes[i].id).map(|(p, _, _)| *p).collect();
        match incoming.len() {
            0 => bad.push("no-parent"),
            1 => parent_of[i] = Some(incoming[0]),
            _ => bad.push("multiple-parents"),
        }
    }
    // (4) reachable from the root without cycles, within the depth limit: walk parent pointers up
    let allowed = if shape.root_is_subintent {
        // a partial transaction's root is itself (at least) at depth 1 of the final transaction
        shape.max_subintent_depth as i64 - 1
    } else {
        shape.max_subintent_depth as i64
    };
    for i in 1..n {
        let mut cur = i;
        let mut steps = 0i64;
        let mut reached = false;
        for _ in 0..=n {
            match parent_of[cur] {
                Some(0) => {
                    steps += 1;
                    reached = true;
                    break;
                }
                Some(p) => {
                    steps += 1;
                    cur = p;
                }
                None => break,
            }
        }
        if !reached {
            bad.push("not-reachable-or-cyclic");
        } else if steps > allowed {
            bad.push("too-deep");
        }
    }
    // (5) yields: child yields to its parent exactly as often as the parent yields to it
    for (pi, c, y) in &edges {
        for i in 1..n {
            if shape.nodes[i].id == *c && parent_of[i] == Some(*pi) && shape.nodes[i].parent_yields != *y {
                bad.push("yield-count-mismatch");
            }
        }
    }
    bad.sort();
    bad.dedup();
    bad
}

// ---------------------------------------------------------------------------------------------
// Shape generation
// ---------------------------------------------------------------------------------------------
pub const CORRUPTIONS: [&str; 12] = [
    "none", "self-loop", "two-cycle", "island", "island-cycle", "shared-child", "missing-child", "duplicate-subintent",
    "duplicate-child-entry", "deep-chain", "yield-mismatch", "root-identity-reused",
];

fn fresh_id(rng: &mut Rng) -> u64 {
    rng.u64() | 1
}

/// Random valid tree over `n_sub` non-root nodes with depth <= `depth_cap` (if possible).
fn base_tree(rng: &mut Rng, n_sub: usize, depth_cap: usize, root_is_subintent: bool, max_subintent_depth: usize, zero_yields: bool) -> Shape {
    let mut nodes: Vec<Node> = (0..=n_sub)
        .map(|_| Node { id: fresh_id(rng), children: vec![], child_yields: vec![], parent_yields: if zero_yields && rng.chance(1, 4) { 0 } else { 1 + rng.usize_below(3) } })
        .collect();
    nodes[0].parent_yields = if root_is_subintent { 1 + rng.usize_below(2) } else { 0 };
    let mut depth = vec![0usize; n_sub + 1];
    for i in 1..=n_sub {
        let cands: Vec<usize> = (0..i).filter(|j| depth[*j] < depth_cap.max(1)).collect();
        let p = if rng.chance(1, 3) { 0 } else { *rng.pick(&cands) };
        depth[i] = depth[p] + 1;
        let (cid, cy) = (nodes[i].id, nodes[i].parent_yields);
        nodes[p].children.push(cid);
        nodes[p].child_yields.push(cy);
    }
    Shape { root_is_subintent, max_subintent_depth, nodes }
}

fn remove_edge_to(shape: &mut Shape, child_id: u64) {
    for p in shape.nodes.iter_mut() {
        while let Some(k) = p.children.iter().position(|c| *c == child_id) {
            p.children.remove(k);
            p.child_yields.remove(k);
        }
    }
}

/// Applies one corruption; `dag_only` restricts to shapes that real hashes can express
/// (children hashes are part of the parent's hash, so cycles cannot be built).
/// Real shapes keep the invariant "children have larger indices than their parents" unless the
/// corruption says otherwise; the real builder orders construction by dependency.
fn corrupt(rng: &mut Rng, shape: &mut Shape, kind: &str) -> bool {
    let n = shape.nodes.len();
    if n < 2 && !matches!(kind, "none" | "missing-child") {
        return false;
    }
    match kind {
        "none" => true,
        "self-loop" => {
            let i = 1 + rng.usize_below(n - 1);
            let id = shape.nodes[i].id;
            if rng.bool() {
                remove_edge_to(shape, id); // only parent is itself: exactly one parent, unreachable
            }
            let y = shape.nodes[i].parent_yields;
            shape.nodes[i].children.push(id);
            shape.nodes[i].child_yields.push(y);
            true
        }
        "two-cycle" => {
            if n < 3 {
                return false;
            }
            let a = 1 + rng.usize_below(n - 1);
            let mut b = 1 + rng.usize_below(n - 1);
            if a == b {
                b = if a + 1 < n { a + 1 } else { a - 1 };
            }
            let (ida, idb) = (shape.nodes[a].id, shape.nodes[b].id);
            if rng.bool() {
                // detached: each has exactly one parent (the other one)
                remove_edge_to(shape, ida);
                remove_edge_to(shape, idb);
            }
            let (ya, yb) = (shape.nodes[a].parent_yields, shape.nodes[b].parent_yields);
            if !shape.nodes[a].children.contains(&idb) {
                shape.nodes[a].children.push(idb);
                shape.nodes[a].child_yields.push(yb);
            }
            if !shape.nodes[b].children.contains(&ida) {
                shape.nodes[b].children.push(ida);
                shape.nodes[b].child_yields.push(ya);
            }
            true
        }
        "island" => {
            let i = 1 + rng.usize_below(n - 1);
            let id = shape.nodes[i].id;
            remove_edge_to(shape, id);
            true
        }
        "island-cycle" => {
            // k >= 2 nodes cut off the tree and closed into a ring: every node keeps exactly one
            // parent, nothing is reachable from the root
            if n < 3 {
                return false;
            }
            let k = 2 + rng.usize_below((n - 2).min(3));
            let mut idx: Vec<usize> = (1..n).collect();
            rng.shuffle(&mut idx);
            idx.truncate(k);
            for i in &idx {
                let id = shape.nodes[*i].id;
                remove_edge_to(shape, id);
            }
            for w in 0..k {
                let (from, to) = (idx[w], idx[(w + 1) % k]);
                let (tid, ty) = (shape.nodes[to].id, shape.nodes[to].parent_yields);
                shape.nodes[from].children.push(tid);
                shape.nodes[from].child_yields.push(ty);
            }
            true
        }
        "shared-child" => {
            // second parent with a smaller index (keeps the DAG order)
            let c = 1 + rng.usize_below(n - 1);
            let cid = shape.nodes[c].id;
            let cands: Vec<usize> = (0..c).filter(|p| !shape.nodes[*p].children.contains(&cid)).collect();
            if cands.is_empty() {
                return false;
            }
            let p = *rng.pick(&cands);
            let y = shape.nodes[c].parent_yields;
            shape.nodes[p].children.push(cid);
            shape.nodes[p].child_yields.push(y);
            true
        }
        "missing-child" => {
            let p = rng.usize_below(n);
            shape.nodes[p].children.push(fresh_id(rng));
            shape.nodes[p].child_yields.push(1);
            true
        }
        "duplicate-subintent" => {
            let i = 1 + rng.usize_below(n - 1);
            let copy = shape.nodes[i].clone();
            let at = 1 + rng.usize_below(n);
            shape.nodes.insert(at.min(shape.nodes.len()), copy);
            true
        }
        "duplicate-child-entry" => {
            let cands: Vec<usize> = (0..n).filter(|p| !shape.nodes[*p].children.is_empty()).collect();
            if cands.is_empty() {
                return false;
            }
            let p = *rng.pick(&cands);
            let k = rng.usize_below(shape.nodes[p].children.len());
            let (c, y) = (shape.nodes[p].children[k], shape.nodes[p].child_yields[k]);
            shape.nodes[p].children.push(c);
            shape.nodes[p].child_yields.push(y);
            true
        }
        "deep-chain" => {
            // re-hang everything as one chain 0 -> 1 -> 2 ... of length limit-1 / limit / limit+1
            let allowed = if shape.root_is_subintent { shape.max_subintent_depth as i64 - 1 } else { shape.max_subintent_depth as i64 };
            let want = (allowed + rng.irange(-1, 1)).max(1) as usize;
            for p in shape.nodes.iter_mut() {
                p.children.clear();
                p.child_yields.clear();
            }
            for i in 1..n {
                let p = if i <= want { i - 1 } else { rng.usize_below(want.min(i)) };
                let (cid, cy) = (shape.nodes[i].id, shape.nodes[i].parent_yields);
                shape.nodes[p].children.push(cid);
                shape.nodes[p].child_yields.push(cy);
            }
            true
        }
        "yield-mismatch" => {
            let cands: Vec<usize> = (0..n).filter(|p| !shape.nodes[*p].children.is_empty()).collect();
            if cands.is_empty() {
                return false;
            }
            let p = *rng.pick(&cands);
            let k = rng.usize_below(shape.nodes[p].children.len());
            let y = shape.nodes[p].child_yields[k];
            shape.nodes[p].child_yields[k] = if y > 0 && rng.bool() { y - 1 } else { y + 1 };
            true
        }
        "root-identity-reused" => {
            if !shape.root_is_subintent {
                return false;
            }
            // a non-root subintent carries the root's identity
            let i = 1 + rng.usize_below(n - 1);
            let old = shape.nodes[i].id;
            let rid = shape.nodes[0].id;
            for p in shape.nodes.iter_mut() {
                for c in p.children.iter_mut() {
                    if *c == old {
                        *c = rid;
                    }
                }
            }
            shape.nodes[i].id = rid;
            true
        }
        _ => false,
    }
}

// ---------------------------------------------------------------------------------------------
// Mock tree driven into the validator
// ---------------------------------------------------------------------------------------------
fn id_hash(id: u64) -> Hash {
    let mut h = [0u8; 32];
    h[..8].copy_from_slice(&id.to_be_bytes());
    h[8..16].copy_from_slice(&id.wrapping_mul(0x9E3779B97F4A7C15).to_be_bytes());
    h[31] = 1; // never the all-zero placeholder
    Hash(h)
}

struct MockIntent {
    hash: IntentHash,
    children: Vec<SubintentHash>,
    child_yields: Vec<usize>,
    parent_yields: usize,
}

impl IntentStructure for MockIntent {
    fn intent_hash(&self) -> IntentHash {
        self.hash
    }
    fn children(&self) -> impl ExactSizeIterator<Item = SubintentHash> {
        self.children.iter().copied()
    }
    fn validate_intent(&self, _validator: &TransactionValidator, _aggregation: &mut AcrossIntentAggregation) -> Result<ManifestYieldSummary, IntentValidationError> {
        // what the manifest interpreter would report: one counter per declared child (a child
        // declared twice shares its counter, as in `ManifestYieldSummary::new_with_children`)
        let mut child_yields: IndexMap<SubintentHash, usize> = IndexMap::new();
        for (c, y) in self.children.iter().zip(self.child_yields.iter()) {
            *child_yields.entry(*c).or_insert(0) += *y;
        }
        Ok(ManifestYieldSummary { parent_yields: self.parent_yields, child_yields })
    }
}

impl HasSubintentHash for MockIntent {
    fn subintent_hash(&self) -> SubintentHash {
        match self.hash {
            IntentHash::Subintent(h) => h,
            IntentHash::Transaction(h) => SubintentHash::from_hash(h.0),
        }
    }
}

struct MockTree {
    root: MockIntent,
    subs: Vec<MockIntent>,
}

impl IntentTreeStructure for MockTree {
    type RootIntentStructure = MockIntent;
    type SubintentStructure = MockIntent;
    fn root(&self) -> &MockIntent {
        &self.root
    }
    fn non_root_subintents(&self) -> impl ExactSizeIterator<Item = &MockIntent> {
        self.subs.iter()
    }
}

fn mock_of(shape: &Shape) -> MockTree {
    let mk = |n: &Node, root_tx: bool| MockIntent {
        hash: if root_tx { IntentHash::Transaction(TransactionIntentHash::from_hash(id_hash(n.id))) } else { IntentHash::Subintent(SubintentHash::from_hash(id_hash(n.id))) },
        children: n.children.iter().map(|c| SubintentHash::from_hash(id_hash(*c))).collect(),
        child_yields: n.child_yields.clone(),
        parent_yields: n.parent_yields,
    };
    MockTree { root: mk(&shape.nodes[0], !shape.root_is_subintent), subs: shape.nodes[1..].iter().map(|n| mk(n, false)).collect() }
}

fn config_with_depth(d: usize) -> TransactionValidationConfig {
    let mut c = TransactionValidationConfig::latest();
    c.max_subintent_depth = d;
    c
}

/// Runs the validator's structure validation on a mock. Ok(accepted?, error class) or the panic.
fn run_mock(shape: &Shape) -> Result<(bool, String), PanicInfo> {
    let validator = TransactionValidator::new_with_static_config(config_with_depth(shape.max_subintent_depth), NETWORK_ID);
    let tree = mock_of(shape);
    catch_mut(|| match validator.validate_intents_and_structure(&tree) {
        Ok(_) => (true, "accepted".to_string()),
        Err(e) => (false, err_class(&e)),
    })
}

fn judge(shard: &mut Shard, path: &str, kind: &str, shape: &Shape, accepted: bool, class: &str, extra: Value) {
    let bad = oracle(shape);
    shard.eval();
    shard.count(&format!("{path}:cases"));
    shard.seen(&format!("{path}:outcomes"), class);
    for k in kind.split('+') {
        shard.seen("corruptions", k);
        shard.count(&format!("{path}:kind:{k}:{}", if accepted { "accepted" } else { "rejected" }));
    }
    shard.max("subintents", (shape.nodes.len() - 1) as u64);
    if accepted {
        shard.count(&format!("{path}:accepted"));
        // behaviour signature: shape of the accepted tree
        let sig = (path, shape.nodes.len(), shape.root_is_subintent, shape.max_subintent_depth, shape.nodes.iter().map(|n| (n.children.len(), n.parent_yields)).collect::<Vec<_>>());
        shard.nontrivial(&sig);
        if !bad.is_empty() {
            // the depth-limit underflow for partial transactions under max depth 0 is its own class
            let underflow = shape.root_is_subintent && shape.max_subintent_depth == 0 && bad.iter().all(|b| *b == "too-deep");
            let sig = if underflow { "accepted-ill-formed:partial-root-with-max-depth-0-allows-any-depth".to_string() } else { format!("accepted-ill-formed:{}", bad.join("+")) };
            shard.count(&format!("{path}:accepted_ill_formed"));
            shard.violation(sig, json!({"path": path, "corruption": kind, "oracle_failed": bad, "shape": shape.to_json(), "extra": extra}));
        }
    } else {
        shard.count(&format!("{path}:rejected"));
        shard.nontrivial(&(path, class, kind, shape.nodes.len(), bad.clone()));
        if bad.is_empty() {
            // converse direction: recorded only
            shard.count(&format!("{path}:rejected_but_oracle_ok"));
            shard.seen(&format!("{path}:rejected_but_oracle_ok_classes"), class);
        } else {
            shard.count(&format!("{path}:rejected_and_oracle_bad"));
            for b in &bad {
                shard.seen(&format!("{path}:oracle_clauses_failed"), b);
            }
        }
    }
    if shard.want_sample() && !bad.is_empty() && shard.index == 0 {
        shard.sample(|| json!({"path": path, "corruption": kind, "accepted": accepted, "outcome": class, "oracle_failed": bad, "shape": shape.to_json()}));
    }
}

fn gen_shape(rng: &mut Rng, dag_only: bool) -> (Shape, String) {
    let n_sub = match rng.below(10) {
        0 => 0,
        1..=6 => 1 + rng.usize_below(5),
        _ => 5 + rng.usize_below(4),
    };
    let max_depth = *rng.pick(&[0usize, 1, 2, 3, 3, 3, 4]);
    let root_is_subintent = rng.chance(1, 3);
    let allowed = if root_is_subintent { max_depth.saturating_sub(1) } else { max_depth };
    let depth_cap = if rng.chance(1, 6) { allowed + 1 } else { allowed };
    let mut shape = base_tree(rng, n_sub, depth_cap, root_is_subintent, max_depth, !dag_only);
    let mut kinds = vec![];
    let rounds = match rng.below(10) {
        0..=2 => 0,
        3..=8 => 1,
        _ => 2,
    };
    for _ in 0..rounds {
        let k = loop {
            let k = *rng.pick(&CORRUPTIONS[1..]);
            if dag_only && matches!(k, "self-loop" | "two-cycle" | "island-cycle" | "duplicate-child-entry" | "root-identity-reused") {
                continue;
            }
            break k;
        };
        if corrupt(rng, &mut shape, k) {
            kinds.push(k);
        }
    }
    let kind = if kinds.is_empty() { "none".to_string() } else { kinds.join("+") };
    (shape, kind)
}

// ---------------------------------------------------------------------------------------------
// Real models
// ---------------------------------------------------------------------------------------------
/// Builds the real subintents of a DAG shape bottom-up. Returns (root core, subintents in list
/// order) or None if the shape is not hash-feasible (cycle).
fn build_real(rng: &mut Rng, shape: &Shape) -> Option<(IntentCoreV2, Vec<SubintentV2>)> {
    let n = shape.nodes.len();
    // distinct identities → one real subintent each (duplicates in the list share it)
    let mut built: std::collections::BTreeMap<u64, (SubintentV2, Hash)> = Default::default();
    let mut missing: std::collections::BTreeMap<u64, Hash> = Default::default();
    let present: std::collections::BTreeSet<u64> = shape.nodes[1..].iter().map(|n| n.id).collect();
    let mut progress = true;
    while progress {
        progress = false;
        for i in 1..n {
            let node = &shape.nodes[i];
            if built.contains_key(&node.id) {
                continue;
            }
            if node.children.iter().all(|c| built.contains_key(c) || !present.contains(c)) {
                let kh: Vec<Hash> = node
                    .children
                    .iter()
                    .map(|c| match built.get(c) {
                        Some((_, h)) => *h,
                        None => *missing.entry(*c).or_insert_with(|| Hash(rng.bytes(32).try_into().unwrap())),
                    })
                    .collect();
                let atoms = rand_atoms(rng, 3);
                let core = subintent_core(rng, &atoms, &kh, &node.child_yields, node.parent_yields, true);
                let s = SubintentV2 { intent_core: core };
                let h = subintent_hash(&s);
                built.insert(node.id, (s, h));
                progress = true;
            }
        }
    }
    if shape.nodes[1..].iter().any(|n| !built.contains_key(&n.id)) {
        return None;
    }
    let root = &shape.nodes[0];
    let kh: Vec<Hash> = root
        .children
        .iter()
        .map(|c| match built.get(c) {
            Some((_, h)) => *h,
            None => *missing.entry(*c).or_insert_with(|| Hash(rng.bytes(32).try_into().unwrap())),
        })
        .collect();
    let atoms = rand_atoms(rng, 3);
    let root_core = subintent_core(rng, &atoms, &kh, &root.child_yields, root.parent_yields, shape.root_is_subintent);
    let subs = shape.nodes[1..].iter().map(|n| built.get(&n.id).unwrap().0.clone()).collect();
    Some((root_core, subs))
}

/// (accepted, class, raw hex, kind)
fn run_real(rng: &mut Rng, shape: &Shape) -> Option<(bool, String, String)> {
    let (root_core, subs) = build_real(rng, shape)?;
    let validator = TransactionValidator::new_with_static_config(config_with_depth(shape.max_subintent_depth), NETWORK_ID);
    let batches = NonRootSubintentSignaturesV2 { by_subintent: subs.iter().map(|_| IntentSignaturesV2::none()).collect() };
    if shape.root_is_subintent {
        let tx = SignedPartialTransactionV2 {
            partial_transaction: PartialTransactionV2 { root_subintent: SubintentV2 { intent_core: root_core }, non_root_subintents: NonRootSubintentsV2(subs) },
            root_subintent_signatures: IntentSignaturesV2::none(),
            non_root_subintent_signatures: batches,
        };
        let raw = tx.to_raw().expect("encode partial");
        let r = raw_validate_partial(&raw, &validator);
        Some((r.0, r.1, hex(raw.as_slice())))
    } else {
        let notary = KeyId::random(rng);
        let ti = TransactionIntentV2 {
            transaction_header: TransactionHeaderV2 { notary_public_key: notary.public(), notary_is_signatory: false, tip_basis_points: 0 },
            root_intent_core: root_core,
            non_root_subintents: NonRootSubintentsV2(subs),
        };
        let signed = SignedTransactionIntentV2 { transaction_intent: ti, transaction_intent_signatures: IntentSignaturesV2::none(), non_root_subintent_signatures: batches };
        let sh = signed_intent_hash_v2(&signed);
        let tx = NotarizedTransactionV2 { signed_transaction_intent: signed, notary_signature: NotarySignatureV2(notary.sign_plain(&sh)) };
        let raw = tx.to_raw().expect("encode notarized");
        let r = raw_validate_notarized(&raw, &validator);
        Some((r.0, r.1, hex(raw.as_slice())))
    }
}

fn raw_validate_notarized(raw: &RawNotarizedTransaction, validator: &TransactionValidator) -> (bool, String) {
    match PreparedNotarizedTransactionV2::prepare(raw, validator.preparation_settings()) {
        Err(e) => (false, prepare_err_class(&e)),
        Ok(p) => match p.validate(validator) {
            Ok(_) => (true, "accepted".into()),
            Err(e) => (false, err_class(&e)),
        },
    }
}

fn raw_validate_partial(raw: &RawSignedPartialTransaction, validator: &TransactionValidator) -> (bool, String) {
    match PreparedSignedPartialTransactionV2::prepare(raw, validator.preparation_settings()) {
        Err(e) => (false, prepare_err_class(&e)),
        Ok(p) => match p.validate(validator) {
            Ok(_) => (true, "accepted".into()),
            Err(e) => (false, err_class(&e)),
        },
    }
}

// ---------------------------------------------------------------------------------------------
pub fn run(args: &Args) -> i32 {
    let spec = Spec::new(
        "C35",
        "exploration",
        "accepted by validate_intents_and_structure / validate_notarized_v2 / validate_signed_partial_transaction_v2 ⇒ independent graph check (distinct, one parent each, reachable & acyclic, depth ≤ limit, declared children present, yield counts equal) passes",
    )
    .assume("mock IntentStructure implementations honour the trait contract: the reported ManifestYieldSummary has one counter per declared child")
    .assume("depth limit for a partial transaction (root is a subintent) is max_subintent_depth - 1, for a full transaction max_subintent_depth (doc comment of the config field)")
    .floor("mock:accepted", args.tier.pick(200_000, 4_000_000))
    .floor("mock:rejected_and_oracle_bad", args.tier.pick(200_000, 4_000_000))
    .floor("real:accepted", args.tier.pick(20_000, 300_000))
    .floor("real:rejected_and_oracle_bad", args.tier.pick(20_000, 300_000))
    .explain("Shapes with <=8 subintents: random trees plus self loops, 2-cycles, island cycles (each member keeps exactly one parent), islands, shared/missing/duplicated children, duplicated subintents, chains at the depth limit -1/0/+1, yield mismatches ±1, max depth 0..4, transaction and partial-transaction roots. Cycles are only expressible through mock trees (a real hash cannot contain itself).");
    if let Some(path) = &args.replay {
        return replay(args, spec, path);
    }
    let mut report = Report::new(args, spec);
    keys();
    let mock_cap = scaled(args, args.tier.pick(1_500_000, 40_000_000));
    let real_cap = scaled(args, args.tier.pick(120_000, 2_000_000));
    report.run_shards(35_01, args.threads, Duration::from_secs(budget_secs(args.tier, 20, 300)), |_idx, rng, shard| {
        let mut done = 0;
        while done < mock_cap && !shard.time_up() {
            done += 1;
            let (shape, kind) = gen_shape(rng, false);
            match run_mock(&shape) {
                Ok((accepted, class)) => judge(shard, "mock", &kind, &shape, accepted, &class, Value::Null),
                Err(p) => {
                    // a panic inside the validator on an input that honours the trait contract
                    shard.eval();
                    shard.count("mock:validator_panics");
                    shard.seen("mock:panic_sites", &p.site());
                    let bad = oracle(&shape);
                    shard.seen("mock:panic_kinds", &format!("{kind} / {}", bad.join("+")));
                    if bad.is_empty() {
                        shard.violation(format!("validator-panic-on-well-formed-tree:{}", p.site()), json!({"shape": shape.to_json(), "panic": p.summary()}));
                    }
                }
            }
        }
    });
    report.run_shards(35_02, args.threads, Duration::from_secs(budget_secs(args.tier, 30, 400)), |_idx, rng, shard| {
        let mut done = 0;
        while done < real_cap && !shard.time_up() {
            done += 1;
            let (shape, kind) = gen_shape(rng, true);
            match run_real(rng, &shape) {
                Some((accepted, class, raw_hex)) => {
                    let extra = if accepted && !oracle(&shape).is_empty() { json!({ "raw": raw_hex }) } else { Value::Null };
                    judge(shard, "real", &kind, &shape, accepted, &class, extra)
                }
                None => shard.count("real:not_hash_feasible"),
            }
        }
    });
    report.finish()
}

fn replay(args: &Args, spec: Spec, path: &std::path::Path) -> i32 {
    let mut report = Report::new(args, spec);
    let doc: Value = serde_json::from_str(&std::fs::read_to_string(path).expect("read replay")).expect("replay json");
    let detail = doc.get("detail").cloned().unwrap_or(Value::Null);
    let shape = Shape::from_json(detail.get("shape").unwrap_or(&Value::Null)).expect("replay: shape");
    let bad = oracle(&shape);
    let is_real = detail.get("path").and_then(|p| p.as_str()) == Some("real");
    let mut shard = Shard::new(0, "C35", args.tier, std::time::Instant::now() + Duration::from_secs(60));
    let (accepted, class) = if is_real {
        let raw = unhex(detail.pointer("/extra/raw").and_then(|r| r.as_str()).unwrap_or(""));
        let validator = TransactionValidator::new_with_static_config(config_with_depth(shape.max_subintent_depth), NETWORK_ID);
        if shape.root_is_subintent {
            raw_validate_partial(&RawSignedPartialTransaction::from_vec(raw), &validator)
        } else {
            raw_validate_notarized(&RawNotarizedTransaction::from_vec(raw), &validator)
        }
    } else {
        run_mock(&shape).unwrap_or((false, "panic".into()))
    };
    println!("REPLAY C35: accepted={accepted} outcome={class} oracle_failed={bad:?}");
    judge(&mut shard, if is_real { "real" } else { "mock" }, "replay", &shape, accepted, &class, detail.get("extra").cloned().unwrap_or(Value::Null));
    shard.nontrivial(&1u8);
    shard.nontrivial(&2u8);
    report.spec.floors.clear();
    report.merge(shard);
    report.finish()
}
