//! Shared workload pieces for C32-C35: cached key universe, random intent content, typed V1/V2
//! transaction assembly (field by field, no builder conveniences that would hide invalid
//! shapes) and signing helpers.
use radix_common::prelude::*;
use radix_transactions::manifest::*;
use radix_transactions::prelude::*;
use radix_transactions::errors::*;
use radix_transactions::validation::*;
use rv_common::Rng;
use std::sync::OnceLock;

pub const NETWORK_ID: u8 = 0xf2; // simulator

// ---------------------------------------------------------------------------------------------
// Key universe (the harness knows every private key it ever signs with)
// ---------------------------------------------------------------------------------------------
#[derive(Clone, Copy, Debug, PartialEq, Eq, Hash, PartialOrd, Ord)]
pub enum Curve {
    Secp,
    Ed,
}

#[derive(Clone, Copy, Debug, PartialEq, Eq, Hash, PartialOrd, Ord)]
pub struct KeyId {
    pub curve: Curve,
    pub idx: usize,
}

pub struct Keys {
    pub secp: Vec<(Secp256k1PrivateKey, Secp256k1PublicKey)>,
    pub ed: Vec<(Ed25519PrivateKey, Ed25519PublicKey)>,
}

pub const KEYS_PER_CURVE: usize = 40;

pub fn keys() -> &'static Keys {
    static K: OnceLock<Keys> = OnceLock::new();
    K.get_or_init(|| {
        let mut secp = vec![];
        let mut ed = vec![];
        for i in 0..KEYS_PER_CURVE {
            let s = Secp256k1PrivateKey::from_u64(1000 + i as u64).unwrap();
            let p = s.public_key();
            secp.push((s, p));
            let e = Ed25519PrivateKey::from_u64(2000 + i as u64).unwrap();
            let p = e.public_key();
            ed.push((e, p));
        }
        Keys { secp, ed }
    })
}

impl KeyId {
    pub fn random(rng: &mut Rng) -> KeyId {
        KeyId {
            curve: if rng.bool() { Curve::Secp } else { Curve::Ed },
            idx: rng.usize_below(KEYS_PER_CURVE),
        }
    }
    pub fn public(&self) -> PublicKey {
        match self.curve {
            Curve::Secp => PublicKey::Secp256k1(keys().secp[self.idx].1),
            Curve::Ed => PublicKey::Ed25519(keys().ed[self.idx].1),
        }
    }
    /// Intent-style signature (Secp: recoverable, no key; Ed: key + signature).
    pub fn sign_with_pk(&self, h: &Hash) -> SignatureWithPublicKeyV1 {
        match self.curve {
            Curve::Secp => SignatureWithPublicKeyV1::Secp256k1 {
                signature: keys().secp[self.idx].0.sign(h),
            },
            Curve::Ed => SignatureWithPublicKeyV1::Ed25519 {
                public_key: keys().ed[self.idx].1,
                signature: keys().ed[self.idx].0.sign(h),
            },
        }
    }
    /// Notary-style signature (no key).
    pub fn sign_plain(&self, h: &Hash) -> SignatureV1 {
        match self.curve {
            Curve::Secp => SignatureV1::Secp256k1(keys().secp[self.idx].0.sign(h)),
            Curve::Ed => SignatureV1::Ed25519(keys().ed[self.idx].0.sign(h)),
        }
    }
    pub fn tag(&self) -> String {
        format!("{}{}", if self.curve == Curve::Secp { "s" } else { "e" }, self.idx)
    }
}

/// Reverse lookup: is this public key one of the harness keys?
pub fn key_id_of(pk: &PublicKey) -> Option<KeyId> {
    match pk {
        PublicKey::Secp256k1(p) => keys().secp.iter().position(|(_, q)| q == p).map(|idx| KeyId { curve: Curve::Secp, idx }),
        PublicKey::Ed25519(p) => keys().ed.iter().position(|(_, q)| q == p).map(|idx| KeyId { curve: Curve::Ed, idx }),
    }
}

pub fn distinct_keys(rng: &mut Rng, n: usize) -> Vec<KeyId> {
    let mut all: Vec<KeyId> = (0..KEYS_PER_CURVE)
        .flat_map(|idx| [KeyId { curve: Curve::Secp, idx }, KeyId { curve: Curve::Ed, idx }])
        .collect();
    rng.shuffle(&mut all);
    all.truncate(n);
    all
}

// ---------------------------------------------------------------------------------------------
// Content generation
// ---------------------------------------------------------------------------------------------
pub fn rand_global_address(rng: &mut Rng) -> GlobalAddress {
    let mut raw = [0u8; NodeId::LENGTH];
    rng.fill(&mut raw);
    raw[0] = *rng.pick(&[
        EntityType::GlobalGenericComponent as u8,
        EntityType::GlobalAccount as u8,
        EntityType::GlobalFungibleResourceManager as u8,
        EntityType::GlobalPackage as u8,
    ]);
    GlobalAddress::new_or_panic(raw)
}

pub fn nth_global_address(tag: u64, n: u64) -> GlobalAddress {
    let mut raw = [0u8; NodeId::LENGTH];
    raw[0] = EntityType::GlobalGenericComponent as u8;
    raw[1..9].copy_from_slice(&tag.to_be_bytes());
    raw[9..17].copy_from_slice(&n.to_be_bytes());
    GlobalAddress::new_or_panic(raw)
}

pub fn rand_resource(rng: &mut Rng) -> ResourceAddress {
    let mut raw = [0u8; NodeId::LENGTH];
    rng.fill(&mut raw);
    raw[0] = EntityType::GlobalFungibleResourceManager as u8;
    ResourceAddress::new_or_panic(raw)
}

pub fn rand_ident(rng: &mut Rng) -> String {
    let n = 1 + rng.usize_below(12);
    (0..n).map(|_| (b'a' + rng.below(26) as u8) as char).collect()
}

fn addr_value(a: GlobalAddress) -> ManifestValue {
    ManifestValue::Custom {
        value: ManifestCustomValue::Address(ManifestAddress::Static(a.into_node_id())),
    }
}

pub fn rand_args(rng: &mut Rng) -> ManifestValue {
    let n = rng.usize_below(4);
    let fields = (0..n)
        .map(|_| match rng.below(5) {
            0 => ManifestValue::U8 { value: rng.u8() },
            1 => ManifestValue::String { value: rand_ident(rng) },
            2 => ManifestValue::U64 { value: rng.u64() },
            3 => ManifestValue::Bool { value: rng.bool() },
            _ => ManifestValue::Tuple { fields: vec![ManifestValue::I32 { value: rng.u32() as i32 }] },
        })
        .collect();
    ManifestValue::Tuple { fields }
}

/// A call whose args carry exactly the given static addresses (they become references) plus
/// the callee itself.
pub fn call_with_refs(callee: GlobalAddress, method: &str, refs: &[GlobalAddress]) -> CallMethod {
    CallMethod {
        address: ManifestGlobalAddress::Static(callee),
        method_name: method.to_string(),
        args: ManifestValue::Tuple { fields: refs.iter().map(|a| addr_value(*a)).collect() },
    }
}

/// Instruction "atoms" common to V1 and V2 (no buckets/proofs left dangling).
#[derive(Clone, Debug)]
pub enum Atom {
    DropAuthZoneProofs,
    DropAllProofs,
    DropNamedProofs,
    DropAuthZoneSignatureProofs,
    DropAuthZoneRegularProofs,
    Call(CallMethod),
    CallFn(CallFunction),
    AssertAny(ResourceAddress),
    /// TAKE_ALL_FROM_WORKTOP + RETURN_TO_WORKTOP (2 instructions); bucket id assigned at lowering
    TakeReturn(ResourceAddress),
}

impl Atom {
    pub fn len(&self) -> usize {
        match self {
            Atom::TakeReturn(_) => 2,
            _ => 1,
        }
    }
}

pub fn rand_atom(rng: &mut Rng, allow_two: bool) -> Atom {
    match rng.below(if allow_two { 10 } else { 9 }) {
        0 => Atom::DropAuthZoneProofs,
        1 => Atom::DropAllProofs,
        2 => Atom::DropNamedProofs,
        3 => Atom::DropAuthZoneSignatureProofs,
        4 => Atom::DropAuthZoneRegularProofs,
        5 | 6 => Atom::Call(CallMethod {
            address: ManifestGlobalAddress::Static(rand_global_address(rng)),
            method_name: rand_ident(rng),
            args: rand_args(rng),
        }),
        7 => {
            let mut raw = [0u8; NodeId::LENGTH];
            rng.fill(&mut raw);
            raw[0] = EntityType::GlobalPackage as u8;
            Atom::CallFn(CallFunction {
                package_address: ManifestPackageAddress::Static(PackageAddress::new_or_panic(raw)),
                blueprint_name: rand_ident(rng),
                function_name: rand_ident(rng),
                args: rand_args(rng),
            })
        }
        8 => Atom::AssertAny(rand_resource(rng)),
        _ => Atom::TakeReturn(rand_resource(rng)),
    }
}

pub fn lower_v1(atoms: &[Atom]) -> Vec<InstructionV1> {
    let mut out = vec![];
    let mut bucket = 0u32;
    for a in atoms {
        match a {
            Atom::DropAuthZoneProofs => out.push(InstructionV1::DropAuthZoneProofs(DropAuthZoneProofs)),
            Atom::DropAllProofs => out.push(InstructionV1::DropAllProofs(DropAllProofs)),
            Atom::DropNamedProofs => out.push(InstructionV1::DropNamedProofs(DropNamedProofs)),
            Atom::DropAuthZoneSignatureProofs => out.push(InstructionV1::DropAuthZoneSignatureProofs(DropAuthZoneSignatureProofs)),
            Atom::DropAuthZoneRegularProofs => out.push(InstructionV1::DropAuthZoneRegularProofs(DropAuthZoneRegularProofs)),
            Atom::Call(c) => out.push(InstructionV1::CallMethod(c.clone())),
            Atom::CallFn(c) => out.push(InstructionV1::CallFunction(c.clone())),
            Atom::AssertAny(r) => out.push(InstructionV1::AssertWorktopContainsAny(AssertWorktopContainsAny { resource_address: *r })),
            Atom::TakeReturn(r) => {
                out.push(InstructionV1::TakeAllFromWorktop(TakeAllFromWorktop { resource_address: *r }));
                out.push(InstructionV1::ReturnToWorktop(ReturnToWorktop { bucket_id: ManifestBucket(bucket) }));
                bucket += 1;
            }
        }
    }
    out
}

pub fn lower_v2(atoms: &[Atom]) -> Vec<InstructionV2> {
    let mut out = vec![];
    let mut bucket = 0u32;
    for a in atoms {
        match a {
            Atom::DropAuthZoneProofs => out.push(InstructionV2::DropAuthZoneProofs(DropAuthZoneProofs)),
            Atom::DropAllProofs => out.push(InstructionV2::DropAllProofs(DropAllProofs)),
            Atom::DropNamedProofs => out.push(InstructionV2::DropNamedProofs(DropNamedProofs)),
            Atom::DropAuthZoneSignatureProofs => out.push(InstructionV2::DropAuthZoneSignatureProofs(DropAuthZoneSignatureProofs)),
            Atom::DropAuthZoneRegularProofs => out.push(InstructionV2::DropAuthZoneRegularProofs(DropAuthZoneRegularProofs)),
            Atom::Call(c) => out.push(InstructionV2::CallMethod(c.clone())),
            Atom::CallFn(c) => out.push(InstructionV2::CallFunction(c.clone())),
            Atom::AssertAny(r) => out.push(InstructionV2::AssertWorktopContainsAny(AssertWorktopContainsAny { resource_address: *r })),
            Atom::TakeReturn(r) => {
                out.push(InstructionV2::TakeAllFromWorktop(TakeAllFromWorktop { resource_address: *r }));
                out.push(InstructionV2::ReturnToWorktop(ReturnToWorktop { bucket_id: ManifestBucket(bucket) }));
                bucket += 1;
            }
        }
    }
    out
}

pub fn rand_atoms(rng: &mut Rng, max: usize) -> Vec<Atom> {
    let n = rng.size(max);
    (0..n).map(|_| rand_atom(rng, true)).collect()
}

pub fn rand_blobs(rng: &mut Rng, max: usize) -> BlobsV1 {
    // distinct contents (the cuttlefish interpreter rejects duplicate blobs)
    let n = rng.size(max);
    let blobs = (0..n)
        .map(|i| {
            let n = rng.size(40);
            let mut b = rng.bytes(n);
            b.extend_from_slice(&(i as u32).to_le_bytes());
            BlobV1(b)
        })
        .collect();
    BlobsV1 { blobs }
}

pub fn rand_fingerprint(rng: &mut Rng) -> PublicKeyFingerprint {
    let mut f = [0u8; PublicKeyFingerprint::LENGTH];
    rng.fill(&mut f);
    PublicKeyFingerprint(f)
}

/// Encrypted V1 message with `n_ed` + `n_secp` decryptors (curves with 0 are left out).
pub fn encrypted_v1(rng: &mut Rng, len: usize, n_ed: usize, n_secp: usize) -> MessageV1 {
    let mut by_curve = IndexMap::new();
    if n_ed > 0 {
        let mut d = IndexMap::new();
        while d.len() < n_ed {
            let mut k = [0u8; AesWrapped128BitKey::LENGTH];
            rng.fill(&mut k);
            d.insert(rand_fingerprint(rng), AesWrapped128BitKey(k));
        }
        by_curve.insert(CurveType::Ed25519, DecryptorsByCurve::Ed25519 { dh_ephemeral_public_key: keys().ed[0].1, decryptors: d });
    }
    if n_secp > 0 {
        let mut d = IndexMap::new();
        while d.len() < n_secp {
            let mut k = [0u8; AesWrapped128BitKey::LENGTH];
            rng.fill(&mut k);
            d.insert(rand_fingerprint(rng), AesWrapped128BitKey(k));
        }
        by_curve.insert(CurveType::Secp256k1, DecryptorsByCurve::Secp256k1 { dh_ephemeral_public_key: keys().secp[0].1, decryptors: d });
    }
    MessageV1::Encrypted(EncryptedMessageV1 { encrypted: AesGcmPayload(rng.bytes(len)), decryptors_by_curve: by_curve })
}

pub fn encrypted_v2(rng: &mut Rng, len: usize, n_ed: usize, n_secp: usize) -> MessageV2 {
    let mut by_curve = IndexMap::new();
    if n_ed > 0 {
        let mut d = IndexMap::new();
        while d.len() < n_ed {
            let mut k = [0u8; AesWrapped256BitKey::LENGTH];
            rng.fill(&mut k);
            d.insert(rand_fingerprint(rng), AesWrapped256BitKey(k));
        }
        by_curve.insert(CurveType::Ed25519, DecryptorsByCurveV2::Ed25519 { dh_ephemeral_public_key: keys().ed[0].1, decryptors: d });
    }
    if n_secp > 0 {
        let mut d = IndexMap::new();
        while d.len() < n_secp {
            let mut k = [0u8; AesWrapped256BitKey::LENGTH];
            rng.fill(&mut k);
            d.insert(rand_fingerprint(rng), AesWrapped256BitKey(k));
        }
        by_curve.insert(CurveType::Secp256k1, DecryptorsByCurveV2::Secp256k1 { dh_ephemeral_public_key: keys().secp[0].1, decryptors: d });
    }
    MessageV2::Encrypted(EncryptedMessageV2 { encrypted: AesGcmPayload(rng.bytes(len)), decryptors_by_curve: by_curve })
}

pub fn plaintext(rng: &mut Rng, mime_len: usize, msg_len: usize, bytes: bool) -> PlaintextMessageV1 {
    let mime: String = (0..mime_len).map(|_| (b'a' + rng.below(26) as u8) as char).collect();
    let message = if bytes {
        MessageContentsV1::Bytes(rng.bytes(msg_len))
    } else {
        MessageContentsV1::String((0..msg_len).map(|_| (b' ' + rng.below(90) as u8) as char).collect())
    };
    PlaintextMessageV1 { mime_type: mime, message }
}

pub fn rand_message_v1(rng: &mut Rng) -> MessageV1 {
    match rng.below(4) {
        0 | 1 => MessageV1::None,
        2 => { let (a, b, c) = (rng.size(20), rng.size(60), rng.bool()); MessageV1::Plaintext(plaintext(rng, a, b, c)) }
        _ => { let (a, b, c) = (rng.size(40), 1 + rng.usize_below(3), rng.usize_below(3)); encrypted_v1(rng, a, b, c) }
    }
}

pub fn rand_message_v2(rng: &mut Rng) -> MessageV2 {
    match rng.below(4) {
        0 | 1 => MessageV2::None,
        2 => { let (a, b, c) = (rng.size(20), rng.size(60), rng.bool()); MessageV2::Plaintext(plaintext(rng, a, b, c)) }
        _ => { let (a, b, c) = (rng.size(40), 1 + rng.usize_below(3), rng.usize_below(3)); encrypted_v2(rng, a, b, c) }
    }
}

pub fn rand_header_v1(rng: &mut Rng, notary: KeyId) -> TransactionHeaderV1 {
    let start = rng.below(1_000_000);
    TransactionHeaderV1 {
        network_id: NETWORK_ID,
        start_epoch_inclusive: Epoch::of(start),
        end_epoch_exclusive: Epoch::of(start + 1 + rng.below(1000)),
        nonce: rng.u32(),
        notary_public_key: notary.public(),
        notary_is_signatory: rng.bool(),
        tip_percentage: rng.below(200) as u16,
    }
}

pub fn rand_intent_header_v2(rng: &mut Rng) -> IntentHeaderV2 {
    let start = 1000 + rng.below(100);
    let (mn, mx) = match rng.below(4) {
        0 => (None, None),
        1 => (Some(Instant::new(1_000 + rng.below(100) as i64)), None),
        2 => (None, Some(Instant::new(5_000 + rng.below(100) as i64))),
        _ => (Some(Instant::new(1_000 + rng.below(100) as i64)), Some(Instant::new(5_000 + rng.below(100) as i64))),
    };
    IntentHeaderV2 {
        network_id: NETWORK_ID,
        start_epoch_inclusive: Epoch::of(start),
        end_epoch_exclusive: Epoch::of(start + 200 + rng.below(500)),
        min_proposer_timestamp_inclusive: mn,
        max_proposer_timestamp_exclusive: mx,
        intent_discriminator: rng.u64(),
    }
}

// ---------------------------------------------------------------------------------------------
// Typed assembly + hashing through `prepare` (the code under test computes the hashes that the
// signatures are made over - exactly as a wallet would).
// ---------------------------------------------------------------------------------------------
pub fn settings() -> &'static PreparationSettings {
    PreparationSettings::latest_ref()
}

// Hashes the harness signs over come from the reference composition (refhash.rs), not from
// `prepare`: over-limit shapes must still be signable and the signatures must not depend on the
// code under test.
pub fn intent_hash_v1(intent: &IntentV1) -> Hash {
    crate::refhash::intent_v1(intent)
}

pub fn signed_intent_hash_v1(si: &SignedIntentV1) -> Hash {
    crate::refhash::signed_intent_v1(si).1
}

pub fn subintent_hash(s: &SubintentV2) -> Hash {
    crate::refhash::subintent_v2(s)
}

pub fn tx_intent_hash_v2(t: &TransactionIntentV2) -> Hash {
    crate::refhash::tx_intent_v2(t).0
}

pub fn signed_intent_hash_v2(t: &SignedTransactionIntentV2) -> Hash {
    crate::refhash::signed_tx_intent_v2(t).1
}

/// Fully honest V1 notarized transaction.
pub fn build_v1(intent: IntentV1, signers: &[KeyId], notary: KeyId) -> NotarizedTransactionV1 {
    let ih = intent_hash_v1(&intent);
    let sigs = signers.iter().map(|k| IntentSignatureV1(k.sign_with_pk(&ih))).collect();
    let signed_intent = SignedIntentV1 { intent, intent_signatures: IntentSignaturesV1 { signatures: sigs } };
    let sh = signed_intent_hash_v1(&signed_intent);
    NotarizedTransactionV1 { signed_intent, notary_signature: NotarySignatureV1(notary.sign_plain(&sh)) }
}

pub fn rand_intent_v1(rng: &mut Rng, notary: KeyId, max_instr: usize) -> IntentV1 {
    IntentV1 {
        header: rand_header_v1(rng, notary),
        instructions: InstructionsV1(lower_v1(&rand_atoms(rng, max_instr))),
        blobs: rand_blobs(rng, 4),
        message: rand_message_v1(rng),
    }
}

/// A leaf/inner subintent core: atoms, then yields to the children, final YIELD_TO_PARENT.
pub fn subintent_core(
    rng: &mut Rng,
    atoms: &[Atom],
    children: &[Hash],
    yields_to_child: &[usize],
    yields_to_parent: usize,
    is_subintent: bool,
) -> IntentCoreV2 {
    let mut instr = lower_v2(atoms);
    let mut parent_left = if is_subintent { yields_to_parent.saturating_sub(1) } else { 0 };
    for (i, n) in yields_to_child.iter().enumerate() {
        for _ in 0..*n {
            instr.push(InstructionV2::YieldToChild(YieldToChild::empty(i as u32)));
            if parent_left > 0 && rng.bool() {
                instr.push(InstructionV2::YieldToParent(YieldToParent::empty()));
                parent_left -= 1;
            }
        }
    }
    for _ in 0..parent_left {
        instr.push(InstructionV2::YieldToParent(YieldToParent::empty()));
    }
    if is_subintent && yields_to_parent > 0 {
        instr.push(InstructionV2::YieldToParent(YieldToParent::empty()));
    }
    IntentCoreV2 {
        header: rand_intent_header_v2(rng),
        blobs: rand_blobs(rng, 2),
        message: rand_message_v2(rng),
        children: ChildSubintentSpecifiersV2 {
            children: children.iter().map(|h| ChildSubintentSpecifier { hash: SubintentHash::from_hash(*h) }).collect(),
        },
        instructions: InstructionsV2(instr),
    }
}

/// Honest V2 assembly: `sub_signers[i]` sign subintent i, `root_signers` the transaction intent.
pub fn build_v2(
    tx_intent: TransactionIntentV2,
    root_signers: &[KeyId],
    sub_signers: &[Vec<KeyId>],
    notary: KeyId,
) -> NotarizedTransactionV2 {
    let ih = tx_intent_hash_v2(&tx_intent);
    let root_sigs = root_signers.iter().map(|k| IntentSignatureV1(k.sign_with_pk(&ih))).collect();
    let mut batches = vec![];
    for (i, s) in tx_intent.non_root_subintents.0.iter().enumerate() {
        let sh = subintent_hash(s);
        let sigs = sub_signers.get(i).map(|v| v.as_slice()).unwrap_or(&[]).iter().map(|k| IntentSignatureV1(k.sign_with_pk(&sh))).collect();
        batches.push(IntentSignaturesV2 { signatures: sigs });
    }
    let signed = SignedTransactionIntentV2 {
        transaction_intent: tx_intent,
        transaction_intent_signatures: IntentSignaturesV2 { signatures: root_sigs },
        non_root_subintent_signatures: NonRootSubintentSignaturesV2 { by_subintent: batches },
    };
    let sh = signed_intent_hash_v2(&signed);
    NotarizedTransactionV2 { signed_transaction_intent: signed, notary_signature: NotarySignatureV2(notary.sign_plain(&sh)) }
}

/// Random well-formed V2 transaction intent: a random tree over `n_sub` subintents with matching
/// yield counts. Returns the intent (subintents in random order).
pub fn rand_tx_intent_v2(rng: &mut Rng, notary: KeyId, n_sub: usize, max_depth: usize, max_instr: usize) -> TransactionIntentV2 {
    // parent[i] = index of the parent (n_sub = root); built so that depth <= max_depth
    let mut depth = vec![0usize; n_sub];
    let mut parent = vec![n_sub; n_sub];
    for i in 0..n_sub {
        // candidates: root or an earlier node with depth < max_depth
        let cands: Vec<usize> = (0..i).filter(|j| depth[*j] < max_depth).collect();
        if !cands.is_empty() && rng.chance(2, 3) {
            let p = *rng.pick(&cands);
            parent[i] = p;
            depth[i] = depth[p] + 1;
        } else {
            parent[i] = n_sub;
            depth[i] = 1;
        }
    }
    // build bottom-up (children have larger indices than parents → iterate in reverse)
    let mut subs: Vec<Option<SubintentV2>> = vec![None; n_sub];
    let mut hashes: Vec<Hash> = vec![Hash([0u8; 32]); n_sub];
    let mut yields_parent = vec![0usize; n_sub];
    for i in 0..n_sub {
        yields_parent[i] = 1 + rng.usize_below(3);
    }
    for i in (0..n_sub).rev() {
        let kids: Vec<usize> = (0..n_sub).filter(|j| parent[*j] == i).collect();
        let kh: Vec<Hash> = kids.iter().map(|k| hashes[*k]).collect();
        let yc: Vec<usize> = kids.iter().map(|k| yields_parent[*k]).collect();
        let atoms = rand_atoms(rng, max_instr);
        let core = subintent_core(rng, &atoms, &kh, &yc, yields_parent[i], true);
        let s = SubintentV2 { intent_core: core };
        hashes[i] = subintent_hash(&s);
        subs[i] = Some(s);
    }
    let kids: Vec<usize> = (0..n_sub).filter(|j| parent[*j] == n_sub).collect();
    let kh: Vec<Hash> = kids.iter().map(|k| hashes[*k]).collect();
    let yc: Vec<usize> = kids.iter().map(|k| yields_parent[*k]).collect();
    let atoms = rand_atoms(rng, max_instr);
    let root_core = subintent_core(rng, &atoms, &kh, &yc, 0, false);
    let mut list: Vec<SubintentV2> = subs.into_iter().map(|s| s.unwrap()).collect();
    rng.shuffle(&mut list);
    TransactionIntentV2 {
        transaction_header: TransactionHeaderV2 {
            notary_public_key: notary.public(),
            notary_is_signatory: rng.bool(),
            tip_basis_points: rng.below(5000) as u32,
        },
        root_intent_core: root_core,
        non_root_subintents: NonRootSubintentsV2(list),
    }
}

pub fn validator_latest() -> TransactionValidator {
    TransactionValidator::new_for_latest_simulator()
}

pub fn hex32(h: &Hash) -> String {
    rv_common::hex(&h.0)
}

// ---------------------------------------------------------------------------------------------
// Error classes (stable, payload-free strings for coverage sets and signatures)
// ---------------------------------------------------------------------------------------------
pub fn variant_name<T: core::fmt::Debug>(t: &T) -> String {
    let s = format!("{t:?}");
    s.chars().take_while(|c| c.is_ascii_alphanumeric() || *c == '_').collect()
}

pub fn prepare_err_class(e: &PrepareError) -> String {
    match e {
        PrepareError::DecodeError(d) => format!("Prepare:Decode:{}", variant_name(d)),
        PrepareError::TooManyValues { value_type, .. } => format!("Prepare:TooManyValues:{value_type:?}"),
        other => format!("Prepare:{}", variant_name(other)),
    }
}

pub fn err_class(e: &TransactionValidationError) -> String {

    match e {
        TransactionValidationError::PrepareError(p) => prepare_err_class(p),
        TransactionValidationError::SubintentStructureError(_, s) => format!("Structure:{}", variant_name(s)),
        TransactionValidationError::IntentValidationError(_, i) => match i {
            IntentValidationError::HeaderValidationError(h) => format!("Intent:Header:{}", variant_name(h)),
            IntentValidationError::InvalidMessage(m) => format!("Intent:Message:{}", variant_name(m)),
            IntentValidationError::ManifestValidationError(m) => format!("Intent:Manifest:{}", variant_name(m)),
            IntentValidationError::ManifestBasicValidatorError(m) => format!("Intent:BasicManifest:{}", variant_name(m)),
            IntentValidationError::TooManyReferences { .. } => "Intent:TooManyReferences".to_string(),
        },
        TransactionValidationError::SignatureValidationError(loc, s) => {
            let across = matches!(loc, TransactionValidationErrorLocation::AcrossTransaction);
            format!("Sig:{}{}", variant_name(s), if across { ":across" } else { "" })
        }
        other => variant_name(other),
    }
}
