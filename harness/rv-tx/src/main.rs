//! C32-C35: transaction identifiers, signature authorisation, validation limits and subintent
//! structure. Oracles are written from the property texts (reference hash composition, harness
//! knowledge of the true key set, an independent limit predicate, an independent graph check).
mod c32;
mod c33;
mod c34;
mod c35;
mod gen;
mod refhash;
mod sborwalk;

fn probe() -> i32 {
    use radix_transactions::prelude::*;
    let mut rng = rv_common::Rng::new(1);
    let notary = gen::KeyId::random(&mut rng);
    let intent = gen::rand_intent_v1(&mut rng, notary, 6);
    let signers = gen::distinct_keys(&mut rng, 3);
    let tx = gen::build_v1(intent, &signers, notary);
    let v = gen::validator_latest();
    let t0 = std::time::Instant::now();
    let r = tx.prepare_and_validate(&v);
    println!("v1: {:?} in {:?}", r.as_ref().map(|v| v.signer_keys.len()).map_err(|e| format!("{e:?}")), t0.elapsed());
    for n in [0usize, 1, 3, 6] {
        let ti = gen::rand_tx_intent_v2(&mut rng, notary, n, 3, 5);
        let t0 = std::time::Instant::now();
        let tx2 = gen::build_v2(ti, &signers, &[signers.clone()], notary);
        let t1 = t0.elapsed();
        let r = tx2.prepare_and_validate(&v);
        println!("v2 n={n}: {:?} build {:?} total {:?} len {}", r.as_ref().map(|v| v.total_signature_validations).map_err(|e| format!("{e:?}")), t1, t0.elapsed(), tx2.to_raw().unwrap().len());
    }
    0
}

fn main() {
    let args = rv_common::parse_args();
    let code = match args.prop.as_str() {
        "probe" => probe(),
        "probe-children" => c32::probe_children(),
        "C32" => c32::run(&args),
        "C33" => c33::run(&args),
        "C34" => c34::run(&args),
        "C35" => c35::run(&args),
        other => {
            eprintln!("rv-tx: no check named {other}");
            2
        }
    };
    std::process::exit(code);
}
