//! C12 (the transaction state cache `Track` reads back its own writes) and C13 (substate locks
//! are exclusive for writers). Oracles: an overlay reference model and a reader/writer model.
mod c12;
mod c13;

fn main() {
    let args = rv_common::parse_args();
    let code = match args.prop.as_str() {
        "C12" => c12::run(&args),
        "C13" => c13::run(&args),
        other => {
            eprintln!("rv-track: no check named {other}");
            2
        }
    };
    std::process::exit(code);
}
