//! C13: substate locks - writers exclusive, readers shared, handles valid from open to close,
//! a node is locked iff some handle on one of its substates is open.
//!
//! Oracle: a reader/writer model keyed by (node, partition, substate key), written from the
//! property text. Two workloads:
//!   (a) direct: random lock / unlock / query histories on the real `SubstateLocks<u64>`;
//!   (b) in-engine: hook H2 (`radix_engine::verif_hooks`) reports every `SubstateLocks::lock` /
//!       `unlock` of real transactions (accounts, faucet, proofs, failing transfers, re-entrant and
//!       recursive Scrypto components); the event history is replayed against the same model.
use radix_common::prelude::*;
use radix_engine::kernel::substate_locks::SubstateLocks;
use radix_engine::verif_hooks::{set_sink, VerifEvent};
use rv_common::{budget_secs, catch_mut, hex, scaled, unhex, Args, Report, Rng, Shard, Spec};
use scrypto_test::prelude::*;
use serde_json::{json, Value};
use std::cell::RefCell;
use std::rc::Rc;
use std::time::Duration;

type LKey = (NodeId, PartitionNumber, SubstateKey);

fn kstr(k: &LKey) -> String {
    let s = match &k.2 {
        SubstateKey::Field(f) => format!("F{f}"),
        SubstateKey::Map(m) => format!("M[{}]", hex(&m[..m.len().min(12)])),
        SubstateKey::Sorted((p, b)) => format!("S[{}|{}]", hex(p), hex(&b[..b.len().min(12)])),
    };
    format!("{}/{}/{}", hex(&k.0 .0[..4]), k.1 .0, s)
}

// ---------------------------------------------------------------------------------------------
// Reference model
// ---------------------------------------------------------------------------------------------
#[derive(Default)]
pub struct RwModel {
    open: BTreeMap<u32, (LKey, bool)>,
    closed: BTreeSet<u32>,
}

#[derive(Debug, Clone, Copy, PartialEq, Eq)]
pub enum LockOutcome {
    GrantedRead,
    GrantedWrite,
    WriteRefusedReadersOpen,
    WriteRefusedWriterOpen,
    ReadRefusedWriterOpen,
}

impl RwModel {
    fn readers(&self, k: &LKey) -> usize {
        self.open.values().filter(|(kk, ro)| kk == k && *ro).count()
    }
    fn writer_open(&self, k: &LKey) -> bool {
        self.open.values().any(|(kk, ro)| kk == k && !*ro)
    }
    fn any_open(&self, k: &LKey) -> bool {
        self.open.values().any(|(kk, _)| kk == k)
    }
    fn node_locked(&self, n: &NodeId) -> bool {
        self.open.values().any(|(kk, _)| kk.0 == *n)
    }
    /// Judges the answer the real lock table gave to a lock request and applies it.
    fn on_lock(&mut self, k: &LKey, read_only: bool, handle: Option<u32>) -> Result<LockOutcome, &'static str> {
        let readers = self.readers(k);
        let writer = self.writer_open(k);
        match handle {
            Some(h) => {
                if read_only && writer {
                    return Err("lock:read-handle-granted-while-write-handle-open");
                }
                if !read_only && (writer || readers > 0) {
                    return Err(if writer { "lock:write-handle-granted-while-write-handle-open" } else { "lock:write-handle-granted-while-read-handle-open" });
                }
                if self.open.contains_key(&h) {
                    return Err("lock:handle-id-issued-while-still-open");
                }
                if self.closed.contains(&h) {
                    return Err("lock:closed-handle-id-issued-again");
                }
                self.open.insert(h, (k.clone(), read_only));
                Ok(if read_only { LockOutcome::GrantedRead } else { LockOutcome::GrantedWrite })
            }
            None => {
                if read_only {
                    if !writer {
                        return Err("lock:read-refused-although-no-write-handle-open");
                    }
                    Ok(LockOutcome::ReadRefusedWriterOpen)
                } else {
                    if !writer && readers == 0 {
                        return Err("lock:write-refused-although-no-handle-open");
                    }
                    Ok(if writer { LockOutcome::WriteRefusedWriterOpen } else { LockOutcome::WriteRefusedReadersOpen })
                }
            }
        }
    }
    fn on_unlock(&mut self, h: u32) -> Result<(LKey, bool), &'static str> {
        match self.open.remove(&h) {
            Some(x) => {
                self.closed.insert(h);
                Ok(x)
            }
            None => Err("unlock:handle-not-open"),
        }
    }
}

pub struct Failure {
    pub signature: String,
    pub detail: Value,
}

// ---------------------------------------------------------------------------------------------
// (a) direct workload
// ---------------------------------------------------------------------------------------------
fn gen_keys(rng: &mut Rng) -> (Vec<NodeId>, Vec<LKey>) {
    let n_nodes = rng.range(1, 3) as usize;
    let nodes: Vec<NodeId> = (0..n_nodes)
        .map(|i| {
            let mut b = [0x60 + i as u8; 30];
            b[29] = rng.u8();
            NodeId(b)
        })
        .collect();
    // the same substate keys under different nodes / partitions: the table must key on all three
    let skeys = [
        SubstateKey::Field(0),
        SubstateKey::Field(1),
        SubstateKey::Map(vec![]),
        SubstateKey::Map(vec![0]),
        SubstateKey::Map(vec![0, 0]),
        SubstateKey::Sorted(([0, 0], vec![])),
        SubstateKey::Sorted(([0, 1], vec![0])),
    ];
    let n_keys = rng.range(1, 8) as usize;
    let mut keys: Vec<LKey> = vec![];
    let mut guard = 0;
    while keys.len() < n_keys && guard < 200 {
        guard += 1;
        let upto = if rng.bool() { 3 } else { skeys.len() };
        let k = (*rng.pick(&nodes), PartitionNumber(*rng.pick(&[0u8, 1, 64])), rng.pick(&skeys[..upto]).clone());
        if !keys.contains(&k) {
            keys.push(k);
        }
    }
    (nodes, keys)
}

pub fn run_direct_case(case_seed: u64, shard: &mut Shard, trace: bool) -> Option<Failure> {
    let mut rng = Rng::new(case_seed);
    let rng = &mut rng;
    let (nodes, keys) = gen_keys(rng);
    let mut locks: SubstateLocks<u64> = SubstateLocks::new();
    let mut model = RwModel::default();
    let mut data: BTreeMap<u32, u64> = BTreeMap::new();
    let n_ops = match rng.below(10) {
        0 => rng.range(1, 12),
        1..=6 => rng.range(20, 300),
        _ => rng.range(300, 2500),
    } as usize;
    let mut log: Vec<String> = vec![];
    let mut sig_hash = 0u64;
    let mut max_readers = 0usize;
    let mut max_open = 0usize;
    // unknown key / node: never locked in this history
    let stranger_node = NodeId([0x77; 30]);
    let stranger_key: LKey = (nodes[0], PartitionNumber(200), SubstateKey::Field(9));

    macro_rules! fail {
        ($sig:expr, $i:expr, $op:expr, $exp:expr, $got:expr) => {{
            let tail: Vec<&String> = log.iter().rev().take(80).rev().collect();
            return Some(Failure {
                signature: format!("{}", $sig),
                detail: json!({"workload": "direct", "case_seed": case_seed.to_string(), "op_index": $i, "op": $op, "expected": $exp, "got": $got,
                               "open_handles": model.open.iter().map(|(h, (k, ro))| format!("{h}:{}:{}", kstr(k), if *ro {"r"} else {"w"})).collect::<Vec<_>>(),
                               "ops_before": tail}),
            });
        }};
    }
    macro_rules! audit {
        ($i:expr) => {{
            for k in keys.iter().chain(std::iter::once(&stranger_key)) {
                let got = locks.is_locked(&k.0, k.1, &k.2);
                let exp = model.any_open(k);
                shard.count(if exp { "query:is_locked_true" } else { "query:is_locked_false" });
                if got != exp {
                    fail!(if exp { "is_locked:false-while-handle-open" } else { "is_locked:true-without-open-handle" }, $i, format!("is_locked {}", kstr(k)), exp, got);
                }
            }
            for n in nodes.iter().chain(std::iter::once(&stranger_node)) {
                let got = locks.node_is_locked(n);
                let exp = model.node_locked(n);
                shard.count(if exp { "query:node_is_locked_true" } else { "query:node_is_locked_false" });
                if got != exp {
                    fail!(if exp { "node_is_locked:false-while-handle-open" } else { "node_is_locked:true-without-open-handle" }, $i, format!("node_is_locked {}", hex(&n.0[..4])), exp, got);
                }
            }
            for (h, (k, _)) in model.open.iter() {
                let got = match catch_mut(|| {
                    let (n, p, s, d) = locks.get(*h);
                    ((*n, *p, s.clone()), *d)
                }) {
                    Ok(v) => v,
                    Err(p) => fail!("get:open-handle-not-usable", $i, format!("get {h}"), kstr(k), p.summary()),
                };
                if &got.0 != k || got.1 != data[h] {
                    fail!("get:open-handle-resolves-to-wrong-substate-or-data", $i, format!("get {h}"), format!("{} data {}", kstr(k), data[h]), format!("{} data {}", kstr(&got.0), got.1));
                }
            }
            shard.count("audits");
        }};
    }

    // phases bias the mix so that many readers pile up on one key, then drain
    let mut p_lock = 50u64;
    let mut p_ro = 60u64;
    let mut hot: Option<usize> = None;
    for i in 0..n_ops {
        if i % 40 == 0 {
            p_lock = *rng.pick(&[20u64, 50, 50, 70, 90]);
            p_ro = *rng.pick(&[0u64, 30, 60, 95, 100]);
            hot = if rng.bool() { Some(rng.usize_below(keys.len())) } else { None };
        }
        shard.eval();
        let c = rng.below(100);
        if c < 70 {
            if rng.below(100) < p_lock || model.open.is_empty() {
                // ---- lock
                let k = match hot {
                    Some(h) if rng.chance(3, 4) => keys[h].clone(),
                    _ => rng.pick(&keys).clone(),
                };
                let ro = rng.below(100) < p_ro;
                let d = rng.u64();
                let got = match catch_mut(|| locks.lock(&k.0, k.1, &k.2, ro, d)) {
                    Ok(v) => v,
                    Err(p) => fail!(format!("lock:panic@{}", p.site()), i, format!("lock {} ro={ro}", kstr(&k)), "Some/None", p.summary()),
                };
                log.push(format!("{i}: lock {} {} -> {:?}", kstr(&k), if ro { "read" } else { "write" }, got));
                shard.count("op:lock");
                match model.on_lock(&k, ro, got) {
                    Ok(o) => {
                        shard.count(&format!("lock:{o:?}"));
                        sig_hash = rv_common::h64(&(sig_hash, o as u8, model.readers(&k) as u64));
                        if let Some(h) = got {
                            data.insert(h, d);
                        }
                        if matches!(o, LockOutcome::GrantedRead) && model.readers(&k) > 1 {
                            shard.count("lock:read_granted_alongside_other_readers");
                        }
                    }
                    Err(sig) => fail!(sig, i, format!("lock {} ro={ro}", kstr(&k)), format!("readers open {} writer open {}", model.readers(&k), model.writer_open(&k)), format!("{got:?}")),
                }
                max_readers = max_readers.max(model.readers(&k));
                max_open = max_open.max(model.open.len());
            } else {
                // ---- unlock an open handle (precondition: unlock only what is open)
                let hs: Vec<u32> = model.open.keys().copied().collect();
                let h = *rng.pick(&hs);
                let got = match catch_mut(|| locks.unlock(h)) {
                    Ok(v) => v,
                    Err(p) => fail!("unlock:open-handle-not-usable", i, format!("unlock {h}"), "the substate of the handle", p.summary()),
                };
                let (k, ro) = model.on_unlock(h).expect("model handle open");
                log.push(format!("{i}: unlock {h} ({} {})", kstr(&k), if ro { "read" } else { "write" }));
                shard.count("op:unlock");
                sig_hash = rv_common::h64(&(sig_hash, 9u8, model.readers(&k) as u64));
                let d = data.remove(&h).unwrap();
                if (got.0, got.1, got.2.clone()) != k || got.3 != d {
                    fail!("unlock:returned-wrong-substate-or-data", i, format!("unlock {h}"), format!("{} data {d}", kstr(&k)), format!("{} data {}", kstr(&(got.0, got.1, got.2)), got.3));
                }
            }
        } else if c < 82 {
            audit!(i);
            shard.count("op:audit_all_queries");
        } else if c < 90 {
            // single queries
            let k = rng.pick(&keys);
            let got = locks.is_locked(&k.0, k.1, &k.2);
            let exp = model.any_open(k);
            shard.count("op:is_locked");
            if got != exp {
                fail!(if exp { "is_locked:false-while-handle-open" } else { "is_locked:true-without-open-handle" }, i, format!("is_locked {}", kstr(k)), exp, got);
            }
            let n = rng.pick(&nodes);
            let got = locks.node_is_locked(n);
            let exp = model.node_locked(n);
            shard.count("op:node_is_locked");
            if got != exp {
                fail!(if exp { "node_is_locked:false-while-handle-open" } else { "node_is_locked:true-without-open-handle" }, i, format!("node_is_locked {}", hex(&n.0[..4])), exp, got);
            }
        } else if c < 96 {
            // get_mut on an open handle: the data written must be read back until close
            if !model.open.is_empty() {
                let hs: Vec<u32> = model.open.keys().copied().collect();
                let h = *rng.pick(&hs);
                let d = rng.u64();
                match catch_mut(|| locks.get_mut(h).3 = d) {
                    Ok(()) => {}
                    Err(p) => fail!("get_mut:open-handle-not-usable", i, format!("get_mut {h}"), "usable", p.summary()),
                }
                data.insert(h, d);
                log.push(format!("{i}: get_mut {h} data={d}"));
                shard.count("op:get_mut");
            }
        } else {
            // use after close: the handle must not resolve any more
            if !model.closed.is_empty() {
                let hs: Vec<u32> = model.closed.iter().copied().collect();
                let h = *rng.pick(&hs);
                let r = catch_mut(|| {
                    let (n, p, s, _) = locks.get(h);
                    (*n, *p, s.clone())
                });
                shard.count("op:get_after_close");
                log.push(format!("{i}: get(closed {h}) -> {}", if r.is_ok() { "resolved" } else { "refused" }));
                if let Ok(k) = r {
                    fail!("get:closed-handle-still-usable", i, format!("get {h} after close"), "not usable", kstr(&k));
                }
            }
        }
    }
    // drain: close everything in random order, then nothing may be locked
    let mut hs: Vec<u32> = model.open.keys().copied().collect();
    rng.shuffle(&mut hs);
    for h in hs {
        shard.eval();
        let got = match catch_mut(|| locks.unlock(h)) {
            Ok(v) => v,
            Err(p) => fail!("unlock:open-handle-not-usable", n_ops, format!("unlock {h}"), "the substate of the handle", p.summary()),
        };
        let (k, _) = model.on_unlock(h).unwrap();
        log.push(format!("end: unlock {h}"));
        shard.count("op:unlock");
        if (got.0, got.1, got.2) != k {
            fail!("unlock:returned-wrong-substate-or-data", n_ops, format!("unlock {h}"), kstr(&k), "other");
        }
        data.remove(&h);
        if rng.chance(1, 4) {
            audit!(n_ops);
        }
    }
    audit!(n_ops);
    shard.max("direct_simultaneous_readers_on_one_substate", max_readers as u64);
    shard.max("direct_open_handles", max_open as u64);
    shard.count("direct_histories");
    shard.nontrivial(&sig_hash);
    if trace {
        for l in &log {
            println!("  {l}");
        }
    }
    if shard.want_sample() {
        let first: Vec<&String> = log.iter().take(20).collect();
        shard.sample(|| json!({"workload": "direct", "case_seed": case_seed.to_string(), "keys": keys.len(), "nodes": nodes.len(), "ops": n_ops, "first_ops": first}));
    }
    None
}

// ---------------------------------------------------------------------------------------------
// (b) in-engine workload through hook H2
// ---------------------------------------------------------------------------------------------
fn enc_key(k: &SubstateKey) -> String {
    hex(&scrypto_encode(k).unwrap())
}
fn ev_json(e: &VerifEvent) -> Option<Value> {
    match e {
        VerifEvent::LockRequested { node_id, partition_num, substate_key, read_only, handle } => Some(json!({
            "op": "lock", "node": hex(&node_id.0), "partition": partition_num.0, "key": enc_key(substate_key), "read_only": read_only, "handle": handle,
        })),
        VerifEvent::LockReleased { handle } => Some(json!({"op": "unlock", "handle": handle})),
        _ => None,
    }
}

#[derive(Default)]
struct EngineStats {
    max_readers: usize,
    max_open: usize,
    max_depth: usize,
}

/// Replays the lock events of one transaction (one lock table) against the model.
fn check_tx_events(events: &[VerifEvent], descr: &str, shard: &mut Shard, stats: &mut EngineStats) -> Option<Failure> {
    let mut model = RwModel::default();
    let mut tables = 0u64;
    let mut sig_hash = 0u64;
    for (i, e) in events.iter().enumerate() {
        shard.count("engine:hook_events");
        let res: Result<(), &'static str> = match e {
            VerifEvent::LockRequested { node_id, partition_num, substate_key, read_only, handle } => {
                shard.eval();
                if *handle == Some(0) && model.closed.is_empty() && model.open.is_empty() {
                    tables += 1;
                } else if *handle == Some(0) {
                    // a new kernel (new lock table) inside what we took for one transaction
                    tables += 1;
                    shard.count("engine:lock_table_restart_inside_recorded_transaction");
                    model = RwModel::default();
                }
                let k: LKey = (*node_id, *partition_num, substate_key.clone());
                match model.on_lock(&k, *read_only, *handle) {
                    Ok(o) => {
                        shard.count(&format!("engine:lock:{o:?}"));
                        sig_hash = rv_common::h64(&(sig_hash, o as u8, model.readers(&k) as u64, partition_num.0));
                        stats.max_readers = stats.max_readers.max(model.readers(&k));
                        stats.max_open = stats.max_open.max(model.open.len());
                        if matches!(o, LockOutcome::GrantedRead) && model.readers(&k) > 1 {
                            shard.count("engine:read_granted_alongside_other_readers");
                        }
                        Ok(())
                    }
                    Err(s) => Err(s),
                }
            }
            VerifEvent::LockReleased { handle } => {
                shard.eval();
                shard.count("engine:releases");
                model.on_unlock(*handle).map(|_| ())
            }
            VerifEvent::FrameEntered { depth, .. } => {
                stats.max_depth = stats.max_depth.max(*depth);
                Ok(())
            }
        };
        if let Err(sig) = res {
            let upto: Vec<Value> = events[..=i].iter().filter_map(ev_json).collect();
            return Some(Failure {
                signature: format!("engine:{sig}"),
                detail: json!({"workload": "engine", "transaction": descr, "event_index": i, "event": format!("{e:?}"), "lock_events": upto}),
            });
        }
    }
    shard.add("engine:lock_tables", tables);
    if !model.open.is_empty() {
        shard.count("engine:transactions_ending_with_open_handles");
    }
    shard.nontrivial(&sig_hash);
    None
}

struct Acct {
    pk: Secp256k1PublicKey,
    addr: ComponentAddress,
}

fn load_pkg(wasm: &[u8], rpd: &[u8]) -> (Vec<u8>, PackageDefinition) {
    (wasm.to_vec(), manifest_decode::<ManifestPackageDefinition>(rpd).expect("rpd decodes").try_into_typed().expect("rpd converts"))
}

pub fn run_engine_shard(rng: &mut Rng, shard: &mut Shard, max_tx: u64) {
    let events: Rc<RefCell<Vec<VerifEvent>>> = Rc::new(RefCell::new(vec![]));
    let sink_events = events.clone();
    let prev = set_sink(Some(Box::new(move |e| sink_events.borrow_mut().push(e))));
    let mut stats = EngineStats::default();

    let mut ledger = LedgerSimulatorBuilder::new().without_kernel_trace().build();
    let accts: Vec<Acct> = (0..3)
        .map(|_| {
            let (pk, _sk, addr) = ledger.new_allocated_account();
            Acct { pk, addr }
        })
        .collect();
    let token = ledger.create_fungible_resource(dec!(100000), 18, accts[0].addr);
    let reent_pkg = ledger.publish_package_simple(load_pkg(include_bytes!("../assets/reentrancy.wasm"), include_bytes!("../assets/reentrancy.rpd")));
    let rec_pkg = ledger.publish_package_simple(load_pkg(include_bytes!("../assets/recursion.wasm"), include_bytes!("../assets/recursion.rpd")));
    let receipt = ledger.execute_manifest(
        ManifestBuilder::new().lock_fee_from_faucet().call_function(reent_pkg, "ReentrantComponent", "new", manifest_args!()).build(),
        vec![],
    );
    let reent = receipt.expect_commit(true).new_component_addresses()[0];
    // set-up transactions are checked too (each helper call may hold several transactions:
    // a granted handle 0 marks the start of a new lock table)
    {
        let evs = std::mem::take(&mut *events.borrow_mut());
        shard.count("engine:setup_batches");
        if let Some(f) = check_tx_events(&evs, "set-up (accounts, resource, packages)", shard, &mut stats) {
            shard.violation(f.signature, f.detail);
        }
    }

    let mut n = 0u64;
    while n < max_tx && !shard.time_up() {
        n += 1;
        let a = rng.usize_below(accts.len());
        let b = (a + 1 + rng.usize_below(accts.len() - 1)) % accts.len();
        let (aa, ab) = (accts[a].addr, accts[b].addr);
        let signer = vec![NonFungibleGlobalId::from_public_key(&accts[a].pk)];
        let (descr, manifest, proofs): (String, TransactionManifestV1, Vec<NonFungibleGlobalId>) = match rng.below(14) {
            0 => ("faucet→deposit".into(), ManifestBuilder::new().lock_fee_from_faucet().get_free_xrd_from_faucet().try_deposit_entire_worktop_or_abort(aa, None).build(), vec![]),
            1 | 2 => {
                let amt = Decimal::from(rng.range(1, 50));
                ("xrd transfer, fee from own account".into(), ManifestBuilder::new().lock_fee(aa, dec!(20)).withdraw_from_account(aa, XRD, amt).try_deposit_entire_worktop_or_abort(ab, None).build(), signer)
            }
            3 => ("overdraw (fails after fee lock)".into(), ManifestBuilder::new().lock_fee(aa, dec!(20)).withdraw_from_account(aa, XRD, dec!(1000000000)).deposit_entire_worktop(ab).build(), signer),
            4 => ("token transfer".into(), ManifestBuilder::new().lock_fee_from_faucet().withdraw_from_account(accts[0].addr, token, Decimal::from(rng.range(1, 5))).deposit_entire_worktop(ab).build(), vec![NonFungibleGlobalId::from_public_key(&accts[0].pk)]),
            5 => ("missing signature (auth failure)".into(), ManifestBuilder::new().lock_fee_from_faucet().withdraw_from_account(aa, XRD, dec!(1)).deposit_entire_worktop(ab).build(), vec![]),
            6 => ("reentrancy: read inside read".into(), ManifestBuilder::new().lock_fee_from_faucet().call_method(reent, "call_self", manifest_args!(reent)).build(), vec![]),
            7 => ("reentrancy: write inside write".into(), ManifestBuilder::new().lock_fee_from_faucet().call_method(reent, "call_mut_self", manifest_args!(reent)).build(), vec![]),
            8 => ("reentrancy: write inside read".into(), ManifestBuilder::new().lock_fee_from_faucet().call_method(reent, "call_mut_self_2", manifest_args!(reent)).build(), vec![]),
            9 => {
                let d = rng.range(1, 12) as u32;
                (format!("recursion depth {d}"), ManifestBuilder::new().lock_fee_from_faucet().call_function(rec_pkg, "Caller", "recursive", manifest_args!(d)).build(), vec![])
            }
            10 => ("proof of amount, then transfer".into(), ManifestBuilder::new().lock_fee(aa, dec!(20)).create_proof_from_account_of_amount(aa, XRD, dec!(1)).withdraw_from_account(aa, XRD, dec!(2)).try_deposit_entire_worktop_or_abort(ab, None).drop_all_proofs().build(), signer),
            11 => ("fee lock + contingent fee, assertion fails".into(), ManifestBuilder::new().lock_fee(aa, dec!(20)).lock_contingent_fee(aa, dec!(1)).assert_worktop_contains(XRD, dec!(1)).build(), signer),
            12 => ("two fee locks, two withdrawals".into(), ManifestBuilder::new().lock_fee(aa, dec!(10)).lock_fee(aa, dec!(10)).withdraw_from_account(aa, XRD, dec!(1)).withdraw_from_account(aa, XRD, dec!(1)).deposit_entire_worktop(ab).build(), signer),
            _ => ("plain method calls on the component".into(), ManifestBuilder::new().lock_fee_from_faucet().call_method(reent, "func", manifest_args!()).call_method(reent, "mut_func", manifest_args!()).build(), vec![]),
        };
        events.borrow_mut().clear();
        let receipt = ledger.execute_manifest(manifest, proofs);
        let evs = std::mem::take(&mut *events.borrow_mut());
        shard.count("engine:transactions");
        shard.seen("engine:transaction_kinds", descr.split(" depth").next().unwrap());
        match &receipt.result {
            TransactionResult::Commit(c) => match &c.outcome {
                TransactionOutcome::Success(_) => shard.count("engine:tx_commit_success"),
                TransactionOutcome::Failure(e) => {
                    shard.count("engine:tx_commit_failure");
                    let s = format!("{e:?}");
                    if s.contains("SubstateLocked") {
                        shard.count("engine:tx_failed_with_SubstateLocked");
                    }
                }
            },
            TransactionResult::Reject(_) => shard.count("engine:tx_rejected"),
            TransactionResult::Abort(_) => shard.count("engine:tx_aborted"),
        }
        if let Some(f) = check_tx_events(&evs, &descr, shard, &mut stats) {
            shard.violation(f.signature, f.detail);
        }
        if shard.want_sample() && n % 7 == 3 {
            let first: Vec<Value> = evs.iter().filter_map(ev_json).take(12).collect();
            shard.sample(|| json!({"workload": "engine", "transaction": descr, "hook_events": evs.len(), "first_lock_events": first}));
        }
    }
    shard.max("engine_simultaneous_readers_on_one_substate", stats.max_readers as u64);
    shard.max("engine_open_handles", stats.max_open as u64);
    shard.max("engine_call_frame_depth", stats.max_depth as u64);
    set_sink(prev);
}

/// Second in-engine workload: the shared mixed-ledger generator of rv-ledger (mint / burn / transfer /
/// recall / freeze / non-fungibles / metadata / fee-lock variants / round and epoch changes ...). Its own
/// monitors report into a throw-away shard (they belong to other properties); only the lock events
/// recorded by OUR sink are judged here.
pub fn run_mix_shard(rng: &mut Rng, shard: &mut Shard, max_steps: u64) {
    let mut side = Shard::new(shard.index, "side", shard.tier, shard.deadline);
    side.max_samples = 0;
    side.max_distinct = 0;
    let mut world = rv_ledger::actions::World::new(&mut side, rng, 4);
    world.ledger.walk_every = 0;
    let events: Rc<RefCell<Vec<VerifEvent>>> = Rc::new(RefCell::new(vec![]));
    let sink_events = events.clone();
    // installed after World::new: replaces rv-ledger's counting sink on this thread
    let prev = set_sink(Some(Box::new(move |e| sink_events.borrow_mut().push(e))));
    let mut stats = EngineStats::default();
    let mut n = 0u64;
    while n < max_steps && !shard.time_up() {
        n += 1;
        events.borrow_mut().clear();
        let label = world.step(&mut side, rng);
        let evs = std::mem::take(&mut *events.borrow_mut());
        shard.count("mix:steps");
        shard.seen("mix:step_labels", label);
        if let Some(f) = check_tx_events(&evs, &format!("rv-ledger mixed step: {label}"), shard, &mut stats) {
            shard.violation(f.signature, f.detail);
        }
        side.violations.clear();
        side.counters.clear();
        side.sets.clear();
    }
    shard.max("engine_simultaneous_readers_on_one_substate", stats.max_readers as u64);
    shard.max("engine_open_handles", stats.max_open as u64);
    shard.max("engine_call_frame_depth", stats.max_depth as u64);
    set_sink(prev);
}

// ---------------------------------------------------------------------------------------------
pub fn spec() -> Spec {
    Spec::new(
        "C13",
        "exploration",
        "(a) direct: generated histories of 1-2500 lock / unlock / is_locked / node_is_locked / get / get_mut / get-after-close operations on the real SubstateLocks over ≤8 substates on ≤3 nodes (the same substate key under several nodes and partitions), in phases biased to reader pile-ups, writer contention and draining, every answer compared with a reader/writer model, plus full audits of all keys, nodes and open handles; (b) in-engine: every SubstateLocks::lock/unlock of real transactions (faucet, transfers, failing transfers, auth failures, proofs, fee locks, re-entrant read/write calls of a Scrypto component, recursion to depth 12, and the shared mixed-ledger generator of rv-ledger: mint/burn/transfer/recall/freeze/non-fungibles/metadata/fee-lock variants/round and epoch changes) reported by hook H2 and replayed against the same model. One evaluation = one lock-table operation judged; distinct = distinct sequences of (outcome, reader count).",
    )
    .assume("unlock / get are only issued for handles the model holds open, except the deliberate get-after-close probe (unlock of an unknown handle panics by design)")
    .assume("in-engine: one lock table per kernel; a granted handle 0 marks a fresh table (handles restart at 0 per transaction); is_locked/node_is_locked are observed only in the direct workload")
    .floor("direct_histories", 2_000)
    .floor("lock:GrantedRead", 20_000)
    .floor("lock:GrantedWrite", 10_000)
    .floor("lock:WriteRefusedReadersOpen", 2_000)
    .floor("lock:WriteRefusedWriterOpen", 2_000)
    .floor("lock:ReadRefusedWriterOpen", 2_000)
    .floor("lock:read_granted_alongside_other_readers", 5_000)
    .floor("op:unlock", 20_000)
    .floor("op:get_after_close", 1_000)
    .floor("query:node_is_locked_true", 5_000)
    .floor("query:node_is_locked_false", 5_000)
    .floor("max:direct_simultaneous_readers_on_one_substate", 8)
    .floor("engine:transactions", 300)
    .floor("mix:steps", 300)
    .floor("engine:hook_events", 50_000)
    .floor("engine:lock:GrantedWrite", 1_000)
    .floor("engine:read_granted_alongside_other_readers", 100)
    .floor("engine:lock:WriteRefusedReadersOpen", 5)
    .floor("engine:lock:WriteRefusedWriterOpen", 5)
}

pub fn run(args: &Args) -> i32 {
    let mut report = Report::new(args, spec());
    if let Some(path) = &args.replay {
        return replay(path, report);
    }
    // (a) direct
    let per_shard = scaled(args, args.tier.pick(3_000, 120_000));
    let budget = Duration::from_secs(budget_secs(args.tier, 15, 240));
    report.run_shards(131, args.threads, budget, |i, rng, shard| {
        shard.max_samples = if i < 2 { 2 } else { 0 }; // leave room for in-engine samples
        let mut n = 0u64;
        while n < per_shard && !shard.time_up() {
            let cs = rng.u64();
            if let Some(f) = run_direct_case(cs, shard, false) {
                shard.violation(f.signature, f.detail);
            }
            n += 1;
        }
    });
    // (b) in-engine
    let tx_per_shard = scaled(args, args.tier.pick(250, 20_000));
    let budget = Duration::from_secs(budget_secs(args.tier, 30, 420));
    report.run_shards(132, args.threads, budget, |_i, rng, shard| {
        run_engine_shard(rng, shard, tx_per_shard);
    });
    // (c) in-engine, shared mixed-ledger workload
    let steps_per_shard = scaled(args, args.tier.pick(150, 10_000));
    let budget = Duration::from_secs(budget_secs(args.tier, 15, 200));
    report.run_shards(133, args.threads, budget, |_i, rng, shard| {
        run_mix_shard(rng, shard, steps_per_shard);
    });
    report.finish()
}

/// Replay: a direct history is regenerated from its case seed; an in-engine finding carries the
/// lock-event history of its transaction, which is re-issued to a fresh real lock table.
fn replay(path: &std::path::Path, mut report: Report) -> i32 {
    let doc: Value = serde_json::from_str(&std::fs::read_to_string(path).expect("replay file")).expect("json");
    let d = &doc["detail"];
    let mut shard = Shard::new(0, "C13", report.args.tier, std::time::Instant::now() + Duration::from_secs(60));
    if let Some(cs) = d["case_seed"].as_str().and_then(|s| s.parse::<u64>().ok()) {
        println!("replaying C13 direct history case_seed={cs}");
        match run_direct_case(cs, &mut shard, true) {
            Some(f) => {
                println!("still violates: {} {}", f.signature, serde_json::to_string_pretty(&f.detail).unwrap());
                shard.violation(f.signature, f.detail);
            }
            None => println!("no disagreement any more"),
        }
    } else if let Some(evs) = d["lock_events"].as_array() {
        println!("re-issuing {} recorded lock events to a fresh SubstateLocks", evs.len());
        let mut locks: SubstateLocks<()> = SubstateLocks::new();
        let mut model = RwModel::default();
        // recorded handle → handle of the fresh table
        let mut map: BTreeMap<u32, u32> = BTreeMap::new();
        let mut bad = None;
        for (i, e) in evs.iter().enumerate() {
            shard.eval();
            if e["op"] == "lock" {
                let mut nb = [0u8; 30];
                nb.copy_from_slice(&unhex(e["node"].as_str().unwrap()));
                let key: SubstateKey = scrypto_decode(&unhex(e["key"].as_str().unwrap())).unwrap();
                let k: LKey = (NodeId(nb), PartitionNumber(e["partition"].as_u64().unwrap() as u8), key);
                let ro = e["read_only"].as_bool().unwrap();
                let got = locks.lock(&k.0, k.1, &k.2, ro, ());
                println!("  {i}: lock {} {} -> {:?} (recorded {})", kstr(&k), if ro { "read" } else { "write" }, got, e["handle"]);
                if let (Some(h), Some(r)) = (got, e["handle"].as_u64()) {
                    map.insert(r as u32, h);
                }
                if let Err(s) = model.on_lock(&k, ro, got) {
                    bad = Some((i, s));
                    break;
                }
            } else {
                let r = e["handle"].as_u64().unwrap() as u32;
                match map.get(&r) {
                    Some(h) if model.open.contains_key(h) => {
                        locks.unlock(*h);
                        model.on_unlock(*h).unwrap();
                        println!("  {i}: unlock {h}");
                    }
                    _ => {
                        println!("  {i}: recorded release of handle {r} which is not open - cannot be re-issued (unlock of an unknown handle panics by design)");
                        bad = Some((i, "unlock:handle-not-open"));
                        break;
                    }
                }
            }
        }
        match bad {
            Some((i, s)) => {
                println!("still violates at event {i}: engine:{s}");
                shard.violation(format!("engine:{s}"), d.clone());
            }
            None => println!("no disagreement any more"),
        }
    } else {
        println!("replay file holds neither a case_seed nor lock_events");
        return 2;
    }
    shard.nontrivial(&1);
    shard.nontrivial(&2);
    report.merge(shard);
    report.spec.floors.clear();
    report.finish()
}
