//! C12: the transaction state cache (`Track`) reads back its own writes.
//!
//! Oracle (written from the property text, not from track.rs): a `BTreeMap` base + an overlay of
//! the transaction's own writes/removals/creations.
//!   * read            = overlay entry if any, else base entry;
//!   * scan_keys(n)    = min(n, #present) *distinct present* keys (which ones is free);
//!   * drain(n)        = the same, with the values, and exactly those entries become absent;
//!   * scan_sorted(n)  = the first min(n, #present) present entries in database sort-key order;
//!   * final updates   = applying them to the base yields base⊕overlay, and they mention no substate
//!                       the transaction never wrote/removed (and never a transient one);
//!   * revert          = overlay := { substates force-written, with the value they had when they
//!                       were force-written }.
//! The real `Track` runs over an `InMemorySubstateDatabase` holding the same base.
use radix_common::prelude::*;
use radix_engine::track::*;
use radix_engine_interface::types::IndexedScryptoValue;
use radix_substate_store_impls::memory_db::InMemorySubstateDatabase;
use radix_substate_store_interface::db_key_mapper::{DatabaseKeyMapper, SpreadPrefixKeyMapper};
use radix_substate_store_interface::interface::*;
use rv_common::{budget_secs, catch_mut, hex, scaled, Args, Report, Rng, Shard, Spec};
use serde_json::{json, Value};
use std::time::Duration;

type M = SpreadPrefixKeyMapper;
type Key = (NodeId, PartitionNumber, SubstateKey);
type Val = Vec<u8>;

#[derive(Clone, Copy, PartialEq, Eq, Debug)]
enum Kind {
    Field,
    Map,
    Sorted,
}

/// A partition holds one kind of key (documented precondition of scan_keys/drain/scan_sorted).
const PARTS: [(u8, Kind); 4] = [(0, Kind::Field), (1, Kind::Map), (2, Kind::Sorted), (64, Kind::Map)];

fn kstr(k: &SubstateKey) -> String {
    match k {
        SubstateKey::Field(f) => format!("F{f}"),
        SubstateKey::Map(m) => format!("M[{}]", hex(m)),
        SubstateKey::Sorted((p, b)) => format!("S[{}|{}]", hex(p), hex(b)),
    }
}
fn nstr(n: &NodeId) -> String {
    hex(&n.0[..2])
}
fn key_str(k: &Key) -> String {
    format!("{}/{}/{}", nstr(&k.0), k.1 .0, kstr(&k.2))
}
fn vstr(v: &Option<Val>) -> String {
    match v {
        None => "-".into(),
        Some(b) => hex(b),
    }
}

// ---------------------------------------------------------------------------------------------
// Reference model
// ---------------------------------------------------------------------------------------------
#[derive(Default)]
struct Model {
    base: BTreeMap<Key, Val>,
    /// Some(v) = written / created, None = removed
    overlay: BTreeMap<Key, Option<Val>>,
    /// overlay entry a substate had when it was (last) force-written; None = no entry
    snap: BTreeMap<Key, Option<Option<Val>>>,
    transient: BTreeSet<Key>,
}

impl Model {
    fn get(&self, k: &Key) -> Option<&Val> {
        match self.overlay.get(k) {
            Some(o) => o.as_ref(),
            None => self.base.get(k),
        }
    }
    fn set(&mut self, k: Key, v: Val) {
        self.overlay.insert(k, Some(v));
    }
    fn remove(&mut self, k: &Key) -> Option<Val> {
        let old = self.get(k).cloned();
        self.overlay.insert(k.clone(), None);
        old
    }
    fn force_write(&mut self, k: &Key) {
        self.snap.insert(k.clone(), self.overlay.get(k).cloned());
    }
    fn revert(&mut self) {
        let snap = std::mem::take(&mut self.snap);
        self.overlay = snap.into_iter().filter_map(|(k, e)| e.map(|e| (k, e))).collect();
    }
    fn final_content(&self) -> BTreeMap<Key, Val> {
        let mut out = self.base.clone();
        for (k, e) in &self.overlay {
            if self.transient.contains(k) {
                continue;
            }
            match e {
                Some(v) => {
                    out.insert(k.clone(), v.clone());
                }
                None => {
                    out.remove(k);
                }
            }
        }
        out
    }
}

fn db_from(content: &BTreeMap<Key, Val>) -> InMemorySubstateDatabase {
    let mut su = StateUpdates::empty();
    for ((n, p, k), v) in content {
        su.of_node(*n).of_partition(*p).mut_update_substates([(k.clone(), DatabaseUpdate::Set(v.clone()))]);
    }
    let mut db = InMemorySubstateDatabase::standard();
    db.commit(&su.create_database_updates());
    db
}

// ---------------------------------------------------------------------------------------------
// Case generation / execution
// ---------------------------------------------------------------------------------------------
struct Universe {
    base_nodes: Vec<NodeId>,
    field_keys: Vec<SubstateKey>,
    map_keys: Vec<SubstateKey>,
    sorted_keys: Vec<SubstateKey>,
}
impl Universe {
    fn pool(&self, kind: Kind) -> &Vec<SubstateKey> {
        match kind {
            Kind::Field => &self.field_keys,
            Kind::Map => &self.map_keys,
            Kind::Sorted => &self.sorted_keys,
        }
    }
}

fn gen_universe(rng: &mut Rng) -> Universe {
    let n_nodes = rng.range(1, 3) as usize;
    let base_nodes = (0..n_nodes)
        .map(|i| {
            let mut b = [0x50 + i as u8; 30];
            b[1] = rng.u8();
            b[29] = rng.u8();
            NodeId(b)
        })
        .collect();
    let field_keys = (0u8..5).map(SubstateKey::Field).collect();
    let mut map_raw: Vec<Vec<u8>> = vec![vec![], vec![0], vec![0, 0], vec![1], vec![0xff], rng.bytes(3), rng.bytes(32)];
    map_raw.sort();
    map_raw.dedup();
    let map_keys = map_raw.into_iter().map(SubstateKey::Map).collect();
    // few prefixes (so the order inside a prefix - the hashed key bytes - matters), shared key bytes
    let prefixes: Vec<[u8; 2]> = match rng.below(3) {
        0 => vec![[0, 0]],
        1 => vec![[0, 0], [0, 1], [1, 0], [0xff, 0xff]],
        _ => vec![[0, 1], [0, 2], [0x80, 0]],
    };
    let bodies: Vec<Vec<u8>> = vec![vec![], vec![0], vec![1], vec![0xaa, 0xbb], rng.bytes(5)];
    let mut sorted: BTreeSet<([u8; 2], Vec<u8>)> = BTreeSet::new();
    let want = rng.range(4, 10) as usize;
    let mut guard = 0;
    while sorted.len() < want && guard < 100 {
        guard += 1;
        sorted.insert((*rng.pick(&prefixes), rng.pick(&bodies).clone()));
    }
    let sorted_keys = sorted.into_iter().map(SubstateKey::Sorted).collect();
    Universe { base_nodes, field_keys, map_keys, sorted_keys }
}

#[derive(Default)]
struct IoCount {
    read_db: u64,
    read_db_not_found: u64,
    track_updated: u64,
    heap_updated: u64,
}
impl IoCount {
    fn note(&mut self, a: &IOAccess) {
        match a {
            IOAccess::ReadFromDb(..) => self.read_db += 1,
            IOAccess::ReadFromDbNotFound(..) => self.read_db_not_found += 1,
            IOAccess::TrackSubstateUpdated { .. } => self.track_updated += 1,
            IOAccess::HeapSubstateUpdated { .. } => self.heap_updated += 1,
        }
    }
}

pub struct Failure {
    pub signature: String,
    pub detail: Value,
}

fn limit_for(rng: &mut Rng, n: usize) -> u32 {
    match rng.below(8) {
        0 => 0,
        1 => 1,
        2 => n.saturating_sub(1) as u32,
        3 => n as u32,
        4 => n as u32 + 1,
        5 => u32::MAX,
        _ => rng.below(n as u64 + 3) as u32,
    }
}
fn limit_class(limit: u32, n: usize) -> &'static str {
    if (limit as usize) < n {
        "limit_lt_present"
    } else if limit as usize == n {
        "limit_eq_present"
    } else {
        "limit_gt_present"
    }
}

/// Judges an unordered limited scan / drain: distinct present entries, as many as the limit allows
/// (values are compared when the operation returns them).
fn judge_unordered(got: &[(SubstateKey, Option<Val>)], present: &[(SubstateKey, Val)], limit: u32) -> Option<&'static str> {
    let distinct: BTreeSet<&SubstateKey> = got.iter().map(|(k, _)| k).collect();
    if distinct.len() != got.len() {
        return Some("duplicate-key");
    }
    for (k, v) in got {
        match present.iter().find(|(p, _)| p == k) {
            None => return Some("returned-absent-key"),
            Some((_, pv)) => {
                if let Some(v) = v {
                    if v != pv {
                        return Some("value-differs");
                    }
                }
            }
        }
    }
    let want = present.len().min(limit as usize);
    if got.len() < want {
        return Some("fewer-than-limit-allows");
    }
    if got.len() > want {
        return Some("more-than-limit");
    }
    None
}

/// Signature of the one post-revert deviation class that can be told apart reliably: a substate
/// that exists in the database, was written blindly (set without a prior read) and whose write was
/// then reverted reads as absent instead of showing the database value. Used only to *name* the
/// disagreement (the verdict never depends on it).
const BLIND_REVERTED: &str = "post-revert:reverted-blind-write-hides-database-value";

/// Runs one generated sequence against the real Track and the model. Returns the first
/// disagreement (the case stops there: the two states have diverged).
pub fn run_case(case_seed: u64, shard: &mut Shard, trace: bool) -> Option<Failure> {
    let mut rng = Rng::new(case_seed);
    let rng = &mut rng;
    let uni = gen_universe(rng);
    let mut model = Model::default();
    // base content
    let (pn, pd) = *rng.pick(&[(0u64, 1u64), (1, 4), (1, 2), (3, 4), (1, 1)]);
    let mut counter: u32 = 0;
    let mut new_value = |rng: &mut Rng| -> IndexedScryptoValue {
        counter += 1;
        let n = rng.size(24);
        IndexedScryptoValue::from_typed(&(counter, rng.bytes(n)))
    };
    for n in &uni.base_nodes {
        for (p, kind) in PARTS {
            for k in uni.pool(kind) {
                if pn > 0 && rng.chance(pn, pd) {
                    model.base.insert((*n, PartitionNumber(p), k.clone()), new_value(rng).as_slice().to_vec());
                }
            }
        }
    }
    let base_db = db_from(&model.base);
    let mut track = MappedTrack::<InMemorySubstateDatabase, M>::new(&base_db);

    let n_ops = match rng.below(10) {
        0 => rng.range(1, 10),
        1..=7 => rng.range(20, 120),
        _ => rng.range(120, 400),
    } as usize;
    let mut revert_at: Vec<usize> = vec![];
    if rng.chance(2, 5) {
        revert_at.push(rng.usize_below(n_ops + 1));
        if rng.chance(1, 10) {
            revert_at.push(rng.usize_below(n_ops + 1));
        }
    }
    let force_bias = rng.chance(1, 2); // some cases with (almost) no force writes → reverts without force writes
    let focus: Option<(usize, usize)> = if rng.bool() { Some((rng.usize_below(uni.base_nodes.len()), rng.usize_below(PARTS.len()))) } else { None };

    let mut live_new: Vec<NodeId> = vec![]; // created and not reverted
    let mut dead_new: Vec<NodeId> = vec![]; // created then reverted (reads only)
    let mut n_created = 0u8;
    let mut accessed: BTreeSet<Key> = BTreeSet::new(); // loaded into the track by get/set/remove/drain
    let mut blind: BTreeSet<Key> = BTreeSet::new(); // loaded into the track by a set (never read before): stays write-only
    let mut force_hidden: BTreeSet<Key> = BTreeSet::new(); // force-written while in that hidden state (second revert restores it)
    let mut blind_reverted: BTreeSet<Key> = BTreeSet::new(); // blind writes of database-present substates that were reverted
    let mut io = IoCount::default();
    let mut log: Vec<String> = vec![];
    let mut reverted = false;
    let mut sig_hash: u64 = 0;
    let mut beh = |x: &str, a: u64| {
        sig_hash = rv_common::h64(&(sig_hash, x, a));
    };

    macro_rules! fail {
        ($sig:expr, $i:expr, $op:expr, $exp:expr, $got:expr) => {{
            let phase = if reverted { "post-revert:" } else { "" };
            let tail: Vec<&String> = log.iter().rev().take(60).rev().collect();
            return Some(Failure {
                signature: if $sig == BLIND_REVERTED { BLIND_REVERTED.to_string() } else { format!("{}{}", phase, $sig) },
                detail: json!({
                    "case_seed": case_seed.to_string(), "op_index": $i, "op": $op, "expected": $exp, "got": $got,
                    "base": model.base.iter().map(|(k, v)| format!("{}={}", key_str(k), hex(v))).collect::<Vec<_>>(),
                    "ops_before": tail,
                }),
            });
        }};
    }
    macro_rules! real {
        ($i:expr, $op:expr, $e:expr) => {
            match catch_mut(|| $e) {
                Ok(v) => v,
                Err(p) => fail!(format!("panic@{}", p.site()), $i, $op, "a return value", p.summary()),
            }
        };
    }

    for i in 0..=n_ops {
        if revert_at.contains(&i) {
            let had_force = !model.snap.is_empty();
            real!(i, "revert", track.revert_non_force_write_changes());
            for k in blind.iter() {
                if model.base.contains_key(k) && (!model.snap.contains_key(k) || force_hidden.contains(k)) {
                    blind_reverted.insert(k.clone());
                }
            }
            force_hidden.clear();
            // a reverted blind write need not stay loaded in the track: force_write's precondition
            // (substate already loaded) is only assumed again after the next read/write of it
            accessed.retain(|k| !blind.contains(k) || model.snap.contains_key(k));
            model.revert();
            dead_new.append(&mut live_new);
            accessed.retain(|k| !dead_new.contains(&k.0));
            reverted = true;
            shard.count(if had_force { "revert:with_force_writes" } else { "revert:without_force_writes" });
            log.push(format!("{i}: REVERT (force-written kept: {})", model.overlay.len()));
            beh("revert", model.overlay.len() as u64);
        }
        if i == n_ops {
            break;
        }
        // ---- choose target
        let use_focus = focus.is_some() && rng.chance(2, 3);
        let (node, is_new_node, is_dead) = if use_focus {
            (uni.base_nodes[focus.unwrap().0], false, false)
        } else {
            match rng.below(10) {
                0..=1 if !live_new.is_empty() => (*rng.pick(&live_new), true, false),
                2 if !dead_new.is_empty() => (*rng.pick(&dead_new), false, true),
                _ => (*rng.pick(&uni.base_nodes), false, false),
            }
        };
        let (pnum, kind) = if use_focus { PARTS[focus.unwrap().1] } else { *rng.pick(&PARTS) };
        let part = PartitionNumber(pnum);
        let pool = uni.pool(kind);
        let skey = rng.pick(pool).clone();
        let key: Key = (node, part, skey.clone());
        let present: Vec<(SubstateKey, Val)> = pool
            .iter()
            .filter_map(|k| model.get(&(node, part, k.clone())).map(|v| (k.clone(), v.clone())))
            .collect();
        let mut cb = |a: IOAccess| -> Result<(), ()> {
            io.note(&a);
            Ok(())
        };
        shard.eval();
        if reverted {
            shard.count("post_revert_ops");
        }
        let choice = rng.below(100);
        match choice {
            // ---------------- reads
            0..=19 | 90..=99 => {
                let via_read = choice >= 90;
                let got: Option<Val> = if via_read {
                    real!(i, "read_substate", track.read_substate(&node, part, &skey).map(|v| v.as_slice().to_vec()))
                } else {
                    real!(i, "get_substate", track.get_substate(&node, part, &skey, &mut cb).unwrap().map(|v| v.as_slice().to_vec()))
                };
                let exp = model.get(&key).cloned();
                shard.count("op:get");
                shard.count(if exp.is_some() { "get:present" } else { "get:absent" });
                match (model.overlay.get(&key), model.base.get(&key)) {
                    (Some(Some(_)), _) => shard.count("get:from_overlay_write"),
                    (Some(None), Some(_)) => shard.count("get:removed_base_entry"),
                    (None, Some(_)) => shard.count("get:from_base"),
                    _ => {}
                }
                log.push(format!("{i}: get {} -> {}", key_str(&key), vstr(&got)));
                beh("get", exp.is_some() as u64);
                if got != exp {
                    let what = match (&exp, &got) {
                        (Some(_), None) if blind_reverted.contains(&key) => BLIND_REVERTED,
                        (Some(_), None) => "get:present-substate-reads-absent",
                        (None, Some(_)) => "get:absent-substate-reads-present",
                        _ => "get:value-differs",
                    };
                    fail!(what, i, format!("get {}", key_str(&key)), vstr(&exp), vstr(&got));
                }
                if !is_dead {
                    accessed.insert(key);
                }
            }
            // ---------------- writes
            20..=37 if !is_dead => {
                let v = new_value(rng);
                let bytes = v.as_slice().to_vec();
                real!(i, "set_substate", track.set_substate(node, part, skey.clone(), v, &mut cb).unwrap());
                shard.count("op:set");
                shard.count(if accessed.contains(&key) || is_new_node { "set:on_tracked" } else { "set:write_only" });
                if !accessed.contains(&key) && !is_new_node {
                    blind.insert(key.clone());
                }
                blind_reverted.remove(&key);
                log.push(format!("{i}: set {} = {}", key_str(&key), hex(&bytes)));
                beh("set", 0);
                model.set(key.clone(), bytes);
                accessed.insert(key);
            }
            38..=47 if !is_dead => {
                let got: Option<Val> = real!(i, "remove_substate", track.remove_substate(&node, part, &skey, &mut cb).unwrap().map(|v| v.as_slice().to_vec()));
                let exp = model.remove(&key);
                shard.count("op:remove");
                shard.count(if exp.is_some() { "remove:present" } else { "remove:absent" });
                log.push(format!("{i}: remove {} -> {}", key_str(&key), vstr(&got)));
                beh("remove", exp.is_some() as u64);
                if got != exp {
                    let what = if got.is_none() && blind_reverted.contains(&key) { BLIND_REVERTED } else { "remove:returned-value-differs" };
                    fail!(what, i, format!("remove {}", key_str(&key)), vstr(&exp), vstr(&got));
                }
                accessed.insert(key);
            }
            // ---------------- scans
            48..=57 => {
                let limit = limit_for(rng, present.len());
                let got: Vec<SubstateKey> = match kind {
                    Kind::Field => real!(i, "scan_keys", track.scan_keys::<FieldKey, (), _>(&node, part, limit, &mut cb).unwrap()),
                    Kind::Map => real!(i, "scan_keys", track.scan_keys::<MapKey, (), _>(&node, part, limit, &mut cb).unwrap()),
                    Kind::Sorted => real!(i, "scan_keys", track.scan_keys::<SortedKey, (), _>(&node, part, limit, &mut cb).unwrap()),
                };
                shard.count("op:scan_keys");
                shard.count(&format!("scan_keys:{}", limit_class(limit, present.len())));
                let opd = format!("scan_keys {}/{} limit={} (present {})", nstr(&node), pnum, limit, present.len());
                log.push(format!("{i}: {opd} -> [{}]", got.iter().map(kstr).collect::<Vec<_>>().join(",")));
                beh("scan", (got.len() as u64) << 2 | limit_class(limit, present.len()).len() as u64 % 4);
                let gs: Vec<String> = got.iter().map(kstr).collect();
                let ps: Vec<String> = present.iter().map(|(k, _)| kstr(k)).collect();
                let got_kv: Vec<(SubstateKey, Option<Val>)> = got.iter().map(|k| (k.clone(), None)).collect();
                if let Some(what) = judge_unordered(&got_kv, &present, limit) {
                    let alt: Vec<(SubstateKey, Val)> = present.iter().filter(|(k, _)| !blind_reverted.contains(&(node, part, k.clone()))).cloned().collect();
                    if alt.len() != present.len() && judge_unordered(&got_kv, &alt, limit).is_none() {
                        fail!(BLIND_REVERTED, i, opd, json!({"count": present.len().min(limit as usize), "present": ps}), json!(gs));
                    }
                    fail!(format!("scan_keys:{what}"), i, opd, json!({"count": present.len().min(limit as usize), "present": ps}), json!(gs));
                }
                if got.iter().any(|k| model.overlay.contains_key(&(node, part, k.clone()))) && got.iter().any(|k| !model.overlay.contains_key(&(node, part, k.clone()))) {
                    shard.count("scan_keys:mixed_sources");
                }
            }
            58..=63 if !is_dead => {
                let limit = limit_for(rng, present.len());
                let got: Vec<(SubstateKey, Val)> = {
                    let r = match kind {
                        Kind::Field => real!(i, "drain_substates", track.drain_substates::<FieldKey, (), _>(&node, part, limit, &mut cb).unwrap()),
                        Kind::Map => real!(i, "drain_substates", track.drain_substates::<MapKey, (), _>(&node, part, limit, &mut cb).unwrap()),
                        Kind::Sorted => real!(i, "drain_substates", track.drain_substates::<SortedKey, (), _>(&node, part, limit, &mut cb).unwrap()),
                    };
                    r.into_iter().map(|(k, v)| (k, v.as_slice().to_vec())).collect()
                };
                shard.count("op:drain");
                shard.count(&format!("drain:{}", limit_class(limit, present.len())));
                let opd = format!("drain {}/{} limit={} (present {})", nstr(&node), pnum, limit, present.len());
                log.push(format!("{i}: {opd} -> [{}]", got.iter().map(|(k, _)| kstr(k)).collect::<Vec<_>>().join(",")));
                beh("drain", got.len() as u64);
                let gs: Vec<String> = got.iter().map(|(k, v)| format!("{}={}", kstr(k), hex(v))).collect();
                let ps: Vec<String> = present.iter().map(|(k, v)| format!("{}={}", kstr(k), hex(v))).collect();
                let got_kv: Vec<(SubstateKey, Option<Val>)> = got.iter().map(|(k, v)| (k.clone(), Some(v.clone()))).collect();
                if let Some(what) = judge_unordered(&got_kv, &present, limit) {
                    let alt: Vec<(SubstateKey, Val)> = present.iter().filter(|(k, _)| !blind_reverted.contains(&(node, part, k.clone()))).cloned().collect();
                    if alt.len() != present.len() && judge_unordered(&got_kv, &alt, limit).is_none() {
                        fail!(BLIND_REVERTED, i, opd, json!({"count": present.len().min(limit as usize), "present": ps}), json!(gs));
                    }
                    fail!(format!("drain:{what}"), i, opd, json!({"count": present.len().min(limit as usize), "present": ps}), json!(gs));
                }
                if got.iter().any(|(k, _)| model.overlay.contains_key(&(node, part, k.clone()))) && got.iter().any(|(k, _)| !model.overlay.contains_key(&(node, part, k.clone()))) {
                    shard.count("drain:mixed_sources");
                }
                for (k, _) in &got {
                    let kk = (node, part, k.clone());
                    model.remove(&kk);
                    accessed.insert(kk);
                }
                // "removes exactly those" is observed by every later read/scan and by the final state
            }
            64..=73 => {
                // sorted scans only make sense on the sorted partition
                let part = PartitionNumber(2);
                let pool = &uni.sorted_keys;
                let mut present: Vec<(DbSortKey, SubstateKey, Val)> = pool
                    .iter()
                    .filter_map(|k| model.get(&(node, part, k.clone())).map(|v| (M::to_db_sort_key(k), k.clone(), v.clone())))
                    .collect();
                present.sort_by(|a, b| a.0.cmp(&b.0));
                let limit = limit_for(rng, present.len());
                let got: Vec<(SubstateKey, Val)> = real!(i, "scan_sorted_substates", track.scan_sorted_substates(&node, part, limit, &mut cb).unwrap())
                    .into_iter()
                    .map(|(k, v)| (SubstateKey::Sorted(k), v.as_slice().to_vec()))
                    .collect();
                shard.count("op:scan_sorted");
                shard.count(&format!("scan_sorted:{}", limit_class(limit, present.len())));
                let want: Vec<(SubstateKey, Val)> = present.iter().take(limit as usize).map(|(_, k, v)| (k.clone(), v.clone())).collect();
                let opd = format!("scan_sorted {}/2 limit={} (present {})", nstr(&node), limit, present.len());
                log.push(format!("{i}: {opd} -> [{}]", got.iter().map(|(k, _)| kstr(k)).collect::<Vec<_>>().join(",")));
                beh("sorted", got.len() as u64);
                if got != want {
                    let gs: Vec<String> = got.iter().map(|(k, v)| format!("{}={}", kstr(k), hex(v))).collect();
                    let ws: Vec<String> = want.iter().map(|(k, v)| format!("{}={}", kstr(k), hex(v))).collect();
                    let gk: Vec<&SubstateKey> = got.iter().map(|(k, _)| k).collect();
                    let wk: Vec<&SubstateKey> = want.iter().map(|(k, _)| k).collect();
                    let alt: Vec<(SubstateKey, Val)> = present.iter().filter(|(_, k, _)| !blind_reverted.contains(&(node, part, k.clone()))).take(limit as usize).map(|(_, k, v)| (k.clone(), v.clone())).collect();
                    let s = if got == alt {
                        BLIND_REVERTED
                    } else if gk == wk {
                        "scan_sorted:value-differs"
                    } else if got.len() != want.len() {
                        "scan_sorted:wrong-count"
                    } else {
                        let mut a = gk.clone();
                        let mut b = wk.clone();
                        a.sort();
                        b.sort();
                        if a == b {
                            "scan_sorted:wrong-order"
                        } else {
                            "scan_sorted:wrong-entries"
                        }
                    };
                    fail!(s, i, opd, json!(ws), json!(gs));
                }
                let from_overlay = want.iter().filter(|(k, _)| model.overlay.contains_key(&(node, part, k.clone()))).count();
                if from_overlay > 0 && from_overlay < want.len() {
                    shard.count("scan_sorted:mixed_sources");
                }
                if let Some((last, _, _)) = present.iter().take(limit as usize).last() {
                    let skipped = pool.iter().any(|k| {
                        let kk = (node, part, k.clone());
                        model.base.contains_key(&kk) && matches!(model.overlay.get(&kk), Some(None)) && M::to_db_sort_key(k) < *last
                    });
                    if skipped {
                        shard.count("scan_sorted:skipped_removed_base_entry");
                    }
                }
            }
            // ---------------- force write (precondition: substate already loaded, node not new)
            74..=79 if !is_new_node && !is_dead => {
                if force_bias || rng.chance(1, 12) {
                    let cands: Vec<&Key> = accessed.iter().filter(|k| !live_new.contains(&k.0)).collect();
                    if !cands.is_empty() {
                        let k = (*rng.pick(&cands)).clone();
                        real!(i, "force_write", track.force_write(&k.0, &k.1, &k.2));
                        shard.count("op:force_write");
                        shard.count(match model.overlay.get(&k) {
                            None => "force_write:unmodified",
                            Some(Some(_)) => "force_write:written",
                            Some(None) => "force_write:removed",
                        });
                        log.push(format!("{i}: force_write {}", key_str(&k)));
                        beh("force", 0);
                        if blind_reverted.contains(&k) {
                            force_hidden.insert(k.clone());
                        } else {
                            force_hidden.remove(&k);
                        }
                        model.force_write(&k);
                    }
                }
            }
            // ---------------- transient marking (precondition: never persisted → absent from base)
            80..=81 if !is_dead => {
                if !model.base.contains_key(&key) {
                    real!(i, "mark_as_transient", track.mark_as_transient(node, part, skey.clone()));
                    model.transient.insert(key.clone());
                    shard.count("op:mark_as_transient");
                    log.push(format!("{i}: mark_as_transient {}", key_str(&key)));
                    beh("transient", 0);
                }
            }
            // ---------------- node creation (precondition: fresh id)
            82..=84 => {
                if n_created < 4 {
                    let mut b = [0xA0 + n_created; 30];
                    b[1] = rng.u8();
                    b[29] = rng.u8();
                    n_created += 1;
                    let id = NodeId(b);
                    let mut subs: NodeSubstates = BTreeMap::new();
                    let mut descr = vec![];
                    for (p, kind) in PARTS {
                        if rng.chance(1, 4) {
                            continue;
                        }
                        let mut m = BTreeMap::new();
                        for k in uni.pool(kind) {
                            if rng.chance(2, 5) {
                                let v = new_value(rng);
                                model.set((id, PartitionNumber(p), k.clone()), v.as_slice().to_vec());
                                descr.push(format!("{}/{}", p, kstr(k)));
                                m.insert(k.clone(), v);
                            }
                        }
                        // sometimes an explicitly empty partition
                        if !m.is_empty() || rng.bool() {
                            subs.insert(PartitionNumber(p), m);
                        }
                    }
                    real!(i, "create_node", track.create_node(id, subs, &mut cb).unwrap());
                    live_new.push(id);
                    shard.count("op:create_node");
                    log.push(format!("{i}: create_node {} [{}]", nstr(&id), descr.join(",")));
                    beh("create", descr.len() as u64);
                }
            }
            // ---------------- tracked-substate info (informational: the property does not speak of it)
            85..=89 => {
                let info = real!(i, "get_tracked_substate_info", track.get_tracked_substate_info(&node, part, &skey));
                shard.count("op:tracked_info");
                let unchanged = model.get(&key) == model.base.get(&key);
                match info {
                    TrackedSubstateInfo::New => shard.count("info:new"),
                    TrackedSubstateInfo::Updated => shard.count("info:updated"),
                    TrackedSubstateInfo::Unmodified => {
                        shard.count("info:unmodified");
                        if !unchanged {
                            shard.count("info:unmodified_but_value_differs_from_base(informational)");
                        }
                    }
                }
            }
            _ => {
                shard.count("op:skipped_by_precondition");
            }
        }
    }

    // ---- finalize → state updates
    shard.eval();
    shard.count("finalize");
    let fin = match catch_mut(|| track.finalize()) {
        Ok(Ok((tracked, _db))) => tracked,
        Ok(Err(e)) => fail!("finalize:error", n_ops, "finalize", "Ok", format!("{e:?}")),
        Err(p) => fail!(format!("finalize:panic@{}", p.site()), n_ops, "finalize", "Ok", p.summary()),
    };
    let (new_nodes, su) = match catch_mut(|| fin.to_state_updates()) {
        Ok(x) => x,
        Err(p) => fail!(format!("to_state_updates:panic@{}", p.site()), n_ops, "to_state_updates", "Ok", p.summary()),
    };
    if new_nodes.len() == live_new.len() && live_new.iter().all(|n| new_nodes.contains(n)) {
        shard.count("final:new_node_set_as_modelled(informational)");
    } else {
        shard.count("final:new_node_set_differs(informational)");
    }
    let mut n_set = 0u64;
    let mut n_del = 0u64;
    for (node, nu) in &su.by_node {
        let NodeStateUpdates::Delta { by_partition } = nu;
        for (part, pu) in by_partition {
            match pu {
                PartitionStateUpdates::Delta { by_substate } => {
                    for (k, u) in by_substate {
                        let kk = (*node, *part, k.clone());
                        match u {
                            DatabaseUpdate::Set(_) => n_set += 1,
                            DatabaseUpdate::Delete => n_del += 1,
                        }
                        if !model.overlay.contains_key(&kk) {
                            fail!("final:update-for-substate-never-written", n_ops, "finalize", "no update", format!("{} {:?}", key_str(&kk), u));
                        }
                        if model.transient.contains(&kk) {
                            fail!("final:transient-substate-persisted", n_ops, "finalize", "no update", format!("{} {:?}", key_str(&kk), u));
                        }
                    }
                }
                PartitionStateUpdates::Batch(_) => {
                    fail!("final:partition-reset-without-partition-deletion", n_ops, "finalize", "delta updates", format!("{}/{}", nstr(node), part.0));
                }
            }
        }
    }
    shard.add("final:set_updates", n_set);
    shard.add("final:delete_updates", n_del);
    if model.overlay.keys().any(|k| model.transient.contains(k)) {
        shard.count("final:transient_overlay_entries_dropped");
    }
    let mut after = base_db.clone();
    after.commit(&su.create_database_updates());
    let expected = model.final_content();
    let expected_db = db_from(&expected);
    if after != expected_db {
        let mut diffs = vec![];
        let mut keys: BTreeSet<&Key> = model.base.keys().collect();
        keys.extend(model.overlay.keys());
        for k in keys {
            let got = after.get_raw_substate_by_db_key(&M::to_db_partition_key(&k.0, k.1), &M::to_db_sort_key(&k.2));
            let exp = expected.get(k).cloned();
            if got != exp {
                diffs.push(format!("{}: expected {} got {}", key_str(k), vstr(&exp), vstr(&got)));
            }
        }
        let s = if diffs.is_empty() { "final:state-differs-outside-touched-substates" } else { "final:state-differs" };
        fail!(s, n_ops, "finalize → to_state_updates applied to the base", "base overlaid with the surviving writes", json!(diffs));
    }
    if reverted {
        shard.count("finalize:after_revert");
    }
    shard.add("io:read_from_db", io.read_db);
    shard.add("io:read_from_db_not_found", io.read_db_not_found);
    shard.add("io:track_substate_updated", io.track_updated);
    shard.add("io:heap_substate_updated", io.heap_updated);
    shard.max("ops_in_one_sequence", n_ops as u64);
    shard.nontrivial(&sig_hash);
    if trace {
        for l in &log {
            println!("  {l}");
        }
    }
    if shard.want_sample() {
        let tail: Vec<&String> = log.iter().take(25).collect();
        shard.sample(|| json!({"case_seed": case_seed.to_string(), "ops": n_ops, "first_ops": tail, "final_set_updates": n_set, "final_delete_updates": n_del}));
    }
    None
}

pub fn spec() -> Spec {
    Spec::new(
        "C12",
        "exploration",
        "generated histories on the real Track over an in-memory base database: 1-3 base nodes × 4 typed partitions (field / map / sorted / second map) × small key pools shared between nodes and partitions, base filled with density 0, 1/4, 1/2, 3/4 or 1; 1-400 operations per history (get/read, set, remove, scan_keys, drain_substates, scan_sorted_substates, create_node with fresh ids, force_write, mark_as_transient, tracked-info), limits chosen around the number of present entries (0, 1, n-1, n, n+1, u32::MAX), 40% of histories revert at a random point (with and without force writes) and continue, then finalize → to_state_updates applied to the base. One evaluation = one operation (or finalization) compared with the reference overlay model; distinct = distinct (operation kind, outcome class) sequences.",
    )
    .assume("documented preconditions honoured: fresh node ids for create_node; a partition holds one kind of key and scans use that kind; force_write only on substates already loaded into the track and not on nodes created in the same transaction (the engine only force-writes under UNMODIFIED_BASE); transient marks only on substates absent from the base; no writes to a node whose creation was reverted; delete_partition excluded (C07)")
    .assume("database key order of sorted entries is taken from the store's key mapper (SpreadPrefixKeyMapper::to_db_sort_key), the in-memory database's commit/read are trusted (C14/C15 cover the stores)")
    .assume("get_tracked_substate_info and IOAccess callbacks are recorded but not verdict-bearing (the property does not speak of them); on_io_access never fails")
    .floor("op:get", 20_000)
    .floor("op:set", 10_000)
    .floor("op:remove", 5_000)
    .floor("op:create_node", 1_000)
    .floor("op:force_write", 1_000)
    .floor("scan_keys:limit_lt_present", 500)
    .floor("scan_keys:limit_eq_present", 500)
    .floor("scan_keys:limit_gt_present", 500)
    .floor("drain:limit_lt_present", 300)
    .floor("drain:limit_eq_present", 300)
    .floor("drain:limit_gt_present", 300)
    .floor("scan_sorted:limit_lt_present", 300)
    .floor("scan_sorted:mixed_sources", 300)
    .floor("scan_sorted:skipped_removed_base_entry", 100)
    .floor("revert:with_force_writes", 200)
    .floor("revert:without_force_writes", 200)
    .floor("post_revert_ops", 5_000)
    .floor("finalize", 2_000)
    .floor("final:delete_updates", 1_000)
}

fn case_seed_for(rng: &mut Rng) -> u64 {
    rng.u64()
}

/// Smallest hand-written histories around revert (run once per run; they give the shortest
/// reproducer when a generated history disagrees for the same reason).
pub fn directed(name: &str, shard: &mut Shard) -> Option<Failure> {
    let node = NodeId([0x51; 30]);
    let part = PartitionNumber(0);
    let key = SubstateKey::Field(0);
    let x = IndexedScryptoValue::from_typed(&(1u32, vec![0xAAu8]));
    let y = IndexedScryptoValue::from_typed(&(2u32, vec![0xBBu8]));
    let mut base = BTreeMap::new();
    base.insert((node, part, key.clone()), x.as_slice().to_vec());
    let db = db_from(&base);
    let mut track = MappedTrack::<InMemorySubstateDatabase, M>::new(&db);
    let mut cb = |_a: IOAccess| -> Result<(), ()> { Ok(()) };
    shard.eval();
    shard.count("directed_histories");
    let (steps, got): (&str, Option<Val>) = match name {
        "blind-set,revert,get" => {
            track.set_substate(node, part, key.clone(), y.clone(), &mut cb).unwrap();
            track.revert_non_force_write_changes();
            ("base {F0=X}; set_substate(F0,Y) without prior read; revert_non_force_write_changes(); get_substate(F0)", track.get_substate(&node, part, &key, &mut cb).unwrap().map(|v| v.as_slice().to_vec()))
        }
        "read,set,revert,get" => {
            let _ = track.get_substate(&node, part, &key, &mut cb).unwrap();
            track.set_substate(node, part, key.clone(), y.clone(), &mut cb).unwrap();
            track.revert_non_force_write_changes();
            ("base {F0=X}; get_substate(F0); set_substate(F0,Y); revert; get_substate(F0)", track.get_substate(&node, part, &key, &mut cb).unwrap().map(|v| v.as_slice().to_vec()))
        }
        _ => {
            let _ = track.get_substate(&node, part, &key, &mut cb).unwrap();
            track.remove_substate(&node, part, &key, &mut cb).unwrap();
            track.revert_non_force_write_changes();
            ("base {F0=X}; get_substate(F0); remove_substate(F0); revert; get_substate(F0)", track.get_substate(&node, part, &key, &mut cb).unwrap().map(|v| v.as_slice().to_vec()))
        }
    };
    let exp = Some(x.as_slice().to_vec());
    if got != exp {
        let sig = if name == "blind-set,revert,get" && got.is_none() { BLIND_REVERTED.to_string() } else { format!("post-revert:directed:{name}") };
        return Some(Failure { signature: sig, detail: json!({"directed": name, "history": steps, "expected": vstr(&exp), "got": vstr(&got)}) });
    }
    None
}
const DIRECTED: [&str; 3] = ["blind-set,revert,get", "read,set,revert,get", "read,remove,revert,get"];

pub fn run(args: &Args) -> i32 {
    let mut report = Report::new(args, spec());
    if let Some(path) = &args.replay {
        return replay(path, report);
    }
    let per_shard = scaled(args, args.tier.pick(15_000, 150_000));
    let budget = Duration::from_secs(budget_secs(args.tier, 40, 600));
    report.run_shards(12, args.threads, budget, |i, rng, shard| {
        if i == 0 {
            for name in DIRECTED {
                if let Some(f) = directed(name, shard) {
                    shard.violation(f.signature, f.detail);
                }
            }
        }
        let mut n = 0u64;
        while n < per_shard && !shard.time_up() {
            let cs = case_seed_for(rng);
            shard.count("sequences");
            if let Some(f) = run_case(cs, shard, false) {
                shard.violation(f.signature, f.detail);
            }
            n += 1;
        }
    });
    report.finish()
}

fn replay(path: &std::path::Path, mut report: Report) -> i32 {
    let doc: Value = serde_json::from_str(&std::fs::read_to_string(path).expect("replay file")).expect("json");
    let mut shard = Shard::new(0, "C12", report.args.tier, std::time::Instant::now() + Duration::from_secs(60));
    if let Some(name) = doc["detail"]["directed"].as_str() {
        println!("replaying C12 directed history {name}");
        match directed(name, &mut shard) {
            Some(f) => {
                println!("still violates: {} {}", f.signature, serde_json::to_string_pretty(&f.detail).unwrap());
                shard.violation(f.signature, f.detail);
            }
            None => println!("no disagreement any more"),
        }
        shard.nontrivial(&1);
        shard.nontrivial(&2);
        report.merge(shard);
        report.spec.floors.clear();
        return report.finish();
    }
    let Some(cs) = doc["detail"]["case_seed"].as_str().and_then(|s| s.parse::<u64>().ok()) else {
        println!("replay file has no case_seed");
        return 2;
    };
    println!("replaying C12 history case_seed={cs}");
    match run_case(cs, &mut shard, true) {
        Some(f) => {
            println!("still violates: {} {}", f.signature, serde_json::to_string_pretty(&f.detail).unwrap());
            shard.violation(f.signature, f.detail);
        }
        None => println!("no disagreement any more"),
    }
    shard.nontrivial(&1);
    shard.nontrivial(&2);
    report.merge(shard);
    report.spec.floors.clear();
    report.finish()
}
