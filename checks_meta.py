"""Registry of claimed checks: property id -> binary, level, texts. MANIFEST.json is generated
from this table by gen_manifest.py; ./check reads it to find the binary."""

CHECKS = {}

def reg(pid, bin, level, technique, text, note, design_ref, watchdog=None):
    CHECKS[pid] = dict(bin=bin, level=level, technique=technique, text=text, note=note,
                       design_ref=design_ref, watchdog=watchdog or {"quick": 1500, "thorough": 4 * 3600})

# Reasons for properties not (yet) claimed. Every property id that is not in CHECKS must be here.
UNCLAIMED_DEFAULT = "monitor for this property is designed (DESIGN.md section 4) but not yet built and validated; not claimed rather than claimed with a different technique"
UNCLAIMED = {}

_PURE_NOTE = "Trusted: num-bigint arithmetic, the oracle code in /verif/harness, the byte representation of values. Decides only the executions produced (seeded generators); other inputs are not covered."

reg("C24", "rv-math", "exploration", "differential monitoring against exact BigInt oracle",
    "Every generated (type, op, operands) instance of checked add/sub/mul/div/neg/abs and every conversion is executed on the real code and compared with the exact rational result truncated toward zero computed in num-bigint; tens of millions of instances per quick run with operands aimed at range limits and truncation boundaries, panics caught. Held = no disagreement on the instances observed.",
    _PURE_NOTE, "DESIGN.md §4 C24")
reg("C25", "rv-math", "exploration", "differential monitoring against exact BigInt oracle",
    "checked_round (all 7 modes, every decimal-place count), floor/ceiling, PreciseDecimal→Decimal truncation, for_withdrawal and divisibility checks are executed on generated values concentrated on exact ties, tie±1 subunit, already-rounded values and values within one step of the range limits and compared with a floor-division oracle.",
    _PURE_NOTE, "DESIGN.md §4 C25")
reg("C26", "rv-math", "exploration", "differential monitoring against exact BigInt oracle",
    "sqrt/cbrt/nth_root results are checked by the defining inequality r^n <= x*S^(n-1) < (r+1)^n in BigInt; checked_powi against the exact rational power for |exp| <= 256 (exact when representable, never larger in magnitude, None only on overflow) and for extreme exponents for absence of panics.",
    _PURE_NOTE + " Root degrees above 512 are not executed (cost of the real code grows with the degree).", "DESIGN.md §4 C26")
reg("C27", "rv-math", "exploration", "differential monitoring against independent grammar",
    "from_str of both decimal types is run on tens of millions of generated strings (grammar-derived, mutated prints, range boundaries, sign/dot soups, non-ASCII digits) and compared with an independent recogniser + exact evaluation; print→parse identity on generated values.",
    _PURE_NOTE, "DESIGN.md §4 C27")
reg("C29", "rv-math", "exploration", "differential monitoring against independent calendar oracle",
    "Instant↔UtcDateTime conversions, UtcDateTime::new validity, add_* and ISO-8601 print/parse are executed on generated timestamps (whole supported range, range ends, civil boundaries, day boundaries; thorough: every second of 16 selected years) and compared with Hinnant's civil-from-days algorithms in i128; from_str on hostile text under catch_unwind.",
    _PURE_NOTE, "DESIGN.md §4 C29")

reg("C16", "rv-ident", "exploration", "round-trip / injectivity / order monitors on generated key sets",
    "SpreadPrefixKeyMapper is run on generated sets of node, partition, field, map and sorted keys built with adversarial near-collisions (prefix/suffix relatives, 0x00/0xFF runs, keys shaped like other keys' database form, sizes 0..4136): round trip through typed and generic functions, per-kind injectivity by sort + adjacent compare, sorted-prefix order on boundary prefixes.",
    _PURE_NOTE + " Injectivity is demanded per key kind (a partition holds one kind).", "DESIGN.md §4 C16")
reg("C28", "rv-ident", "exploration", "differential monitoring against independent Bech32m / id grammars",
    "Address encode/decode over 28 network definitions (22 custom near-colliding HRP suffixes) x every entity byte against an independent BIP-173/350 reference; typed addresses accept exactly their entity class; every other network rejects; crafted valid-checksum texts rejected; non-fungible local/global ids judged by an independent grammar through value, text, SBOR and byte forms; parsing under catch_unwind.",
    _PURE_NOTE, "DESIGN.md §4 C28")
reg("C37", "rv-ident", "exploration", "exhaustive-universe evaluation of constraint meaning",
    "Every generated ManifestResourceConstraint / GeneralResourceConstraint is evaluated on all 128 subsets of a 7-id universe (x foreign ids) and on a boundary grid of fungible amounts against the mathematical meaning computed with BigInt and bit masks; normalize() must not change the accepted set; a constraint declared valid must have a witness balance that is accepted.",
    _PURE_NOTE + " The engine-side half (worktop assertions in executed manifests) is covered by the C09 check.", "DESIGN.md §4 C37")
reg("C48", "rv-ident", "exploration", "sign/verify/mutate monitors on the real crypto libraries",
    "For generated keys and messages: sign -> verify, secp256k1 recovery -> signer, every position of signature and key and up to 48 message positions mutated (bit flips, random masks, all 255 masks on sampled positions and on the recovery-id byte) must fail verification; BLS aggregate / fast-aggregate verification against 15+ valid and invalid compositions; small-order Ed25519 points and BLS infinity key probes.",
    _PURE_NOTE + " Adversarially cancelling pairs of invalid BLS components are not constructed.", "DESIGN.md §4 C48")

_LEDGER_NOTE = "Trusted: the SBOR substate types + database key mapper used to decode raw substates, num-bigint, the harness. Observes only the executions of the seeded workload (single process/architecture); all global monitors (C02,C03,C04,C05,C06,C11,C43,C44,C49,C51) are armed in every ledger run."
_MIX = "Long seeded ledger histories of mixed transactions (mint/burn/transfer/recall/freeze/NF mint+burn+data update/metadata/failing transactions/fee-lock variants/round+epoch changes, adversarial amounts) are executed on the real engine; "
reg("C03", "rv-engine", "exploration", "conservation monitor over raw pre/post substates and receipt events",
    _MIX + "for every committed transaction the sum of vault balance changes per resource (read from the raw pre- and post-state substates), the total-supply field change and the non-fungible id sets are compared with minted minus burned taken from the receipt's events (BigInt).",
    _LEDGER_NOTE, "DESIGN.md §4 C03")
reg("C04", "rv-engine", "exploration", "whole-database walker + full event replay oracle",
    _MIX + "every N commits and at the end an own walker sums all vaults per resource, compares with recorded supplies, checks non-negative balances and NF vault counts, and replays every event emitted since genesis to recompute all vault balances and supplies; per transaction each vault's balance change must equal the replay of its own events. The repository's resource checker/reconciler runs as a second opinion.",
    _LEDGER_NOTE, "DESIGN.md §4 C04")
reg("C05", "rv-engine", "exploration", "whole-database well-formedness walker",
    _MIX + "every N commits and at the end an own walker checks single ownership of every internal node, global-only references, presence of state/type info for every owned or referenced entity and consistency of the entity-type byte with the stored blueprint; schema conformance and role-assignment validity are checked by running the repository's SystemDatabaseChecker + RoleAssignmentDatabaseChecker on the same states.",
    _LEDGER_NOTE + " Schema conformance clause trusts sbor payload validation (monitored separately by C22).", "DESIGN.md §4 C05")
reg("C02", "rv-engine", "fault_enumeration", "fault-injection sweep + failure-shape allow-list monitor",
    "For each generated manifest on an aged ledger the number n of injectable system-callback steps is learned, then the manifest is re-executed from the same snapshot with a system error injected at every step 1..=n (or 250 spread points when n > 300); each commit-failure receipt's raw state diff and events are classified against the allow-list of the property (fee vault balances by exactly -payment, validator reward bookkeeping, replay-protection record, fee events only) and the whole-database walkers run on sampled post-failure states. Natural failures of the workload are classified the same way in every ledger run.",
    _LEDGER_NOTE + " Injected error kind is the costing error of scrypto-test's injector.", "DESIGN.md §4 C02")
