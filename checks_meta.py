"""Registry of claimed checks: property id -> binary, level, texts. MANIFEST.json is generated
from this table by gen_manifest.py; ./check reads it to find the binary."""

CHECKS = {}

def reg(pid, bin, level, technique, text, note, design_ref, watchdog=None):
    CHECKS[pid] = dict(bin=bin, level=level, technique=technique, text=text, note=note,
                       design_ref=design_ref, watchdog=watchdog or {"quick": 1500, "thorough": 4 * 3600})

# Reasons for properties not (yet) claimed. Every property id that is not in CHECKS must be here.
UNCLAIMED_DEFAULT = "monitor for this property is designed (DESIGN.md section 4) but not yet built and validated; not claimed rather than claimed with a different technique"
UNCLAIMED = {}

_PURE_NOTE = "Trusted: num-bigint arithmetic, the oracle code in /verif/harness, the byte representation of values. Decides only the executions produced (seeded generators); other inputs are not covered."

reg("C24", "rv-math", "exploration", "differential monitoring against exact BigInt oracle",
    "Every generated (type, op, operands) instance of checked add/sub/mul/div/neg/abs and every conversion is executed on the real code and compared with the exact rational result truncated toward zero computed in num-bigint; tens of millions of instances per quick run with operands aimed at range limits and truncation boundaries, panics caught. Held = no disagreement on the instances observed.",
    _PURE_NOTE, "DESIGN.md §4 C24")
reg("C25", "rv-math", "exploration", "differential monitoring against exact BigInt oracle",
    "checked_round (all 7 modes, every decimal-place count), floor/ceiling, PreciseDecimal→Decimal truncation, for_withdrawal and divisibility checks are executed on generated values concentrated on exact ties, tie±1 subunit, already-rounded values and values within one step of the range limits and compared with a floor-division oracle.",
    _PURE_NOTE, "DESIGN.md §4 C25")
reg("C26", "rv-math", "exploration", "differential monitoring against exact BigInt oracle",
    "sqrt/cbrt/nth_root results are checked by the defining inequality r^n <= x*S^(n-1) < (r+1)^n in BigInt; checked_powi against the exact rational power for |exp| <= 256 (exact when representable, never larger in magnitude, None only on overflow) and for extreme exponents for absence of panics.",
    _PURE_NOTE + " Root degrees above 512 are not executed (cost of the real code grows with the degree).", "DESIGN.md §4 C26")
reg("C27", "rv-math", "exploration", "differential monitoring against independent grammar",
    "from_str of both decimal types is run on tens of millions of generated strings (grammar-derived, mutated prints, range boundaries, sign/dot soups, non-ASCII digits) and compared with an independent recogniser + exact evaluation; print→parse identity on generated values.",
    _PURE_NOTE, "DESIGN.md §4 C27")
reg("C29", "rv-math", "exploration", "differential monitoring against independent calendar oracle",
    "Instant↔UtcDateTime conversions, UtcDateTime::new validity, add_* and ISO-8601 print/parse are executed on generated timestamps (whole supported range, range ends, civil boundaries, day boundaries; thorough: every second of 16 selected years) and compared with Hinnant's civil-from-days algorithms in i128; from_str on hostile text under catch_unwind.",
    _PURE_NOTE, "DESIGN.md §4 C29")
