"""Registry of claimed checks: property id -> binary, level, texts. MANIFEST.json is generated
from this table by gen_manifest.py; ./check reads it to find the binary."""

CHECKS = {}

def reg(pid, bin, level, technique, text, note, design_ref, watchdog=None):
    CHECKS[pid] = dict(bin=bin, level=level, technique=technique, text=text, note=note,
                       design_ref=design_ref, watchdog=watchdog or {"quick": 1500, "thorough": 4 * 3600})

# Reasons for properties not (yet) claimed. Every property id that is not in CHECKS must be here.
UNCLAIMED_DEFAULT = "monitor for this property is designed (DESIGN.md section 4) but not yet built and validated; not claimed rather than claimed with a different technique"
UNCLAIMED = {}

_PURE_NOTE = "Trusted: num-bigint arithmetic, the oracle code in /verif/harness, the byte representation of values. Decides only the executions produced (seeded generators); other inputs are not covered."

reg("C24", "rv-math", "exploration", "differential monitoring against exact BigInt oracle",
    "Every generated (type, op, operands) instance of checked add/sub/mul/div/neg/abs and every conversion is executed on the real code and compared with the exact rational result truncated toward zero computed in num-bigint; tens of millions of instances per quick run with operands aimed at range limits and truncation boundaries, panics caught. Held = no disagreement on the instances observed.",
    _PURE_NOTE, "DESIGN.md §4 C24")
reg("C25", "rv-math", "exploration", "differential monitoring against exact BigInt oracle",
    "checked_round (all 7 modes, every decimal-place count), floor/ceiling, PreciseDecimal→Decimal truncation, for_withdrawal and divisibility checks are executed on generated values concentrated on exact ties, tie±1 subunit, already-rounded values and values within one step of the range limits and compared with a floor-division oracle.",
    _PURE_NOTE, "DESIGN.md §4 C25")
reg("C26", "rv-math", "exploration", "differential monitoring against exact BigInt oracle",
    "sqrt/cbrt/nth_root results are checked by the defining inequality r^n <= x*S^(n-1) < (r+1)^n in BigInt; checked_powi against the exact rational power for |exp| <= 256 (exact when representable, never larger in magnitude, None only on overflow) and for extreme exponents for absence of panics.",
    _PURE_NOTE + " Root degrees above 512 are not executed (cost of the real code grows with the degree).", "DESIGN.md §4 C26")
reg("C27", "rv-math", "exploration", "differential monitoring against independent grammar",
    "from_str of both decimal types is run on tens of millions of generated strings (grammar-derived, mutated prints, range boundaries, sign/dot soups, non-ASCII digits) and compared with an independent recogniser + exact evaluation; print→parse identity on generated values.",
    _PURE_NOTE, "DESIGN.md §4 C27")
reg("C29", "rv-math", "exploration", "differential monitoring against independent calendar oracle",
    "Instant↔UtcDateTime conversions, UtcDateTime::new validity, add_* and ISO-8601 print/parse are executed on generated timestamps (whole supported range, range ends, civil boundaries, day boundaries; thorough: every second of 16 selected years) and compared with Hinnant's civil-from-days algorithms in i128; from_str on hostile text under catch_unwind.",
    _PURE_NOTE, "DESIGN.md §4 C29")

reg("C16", "rv-ident", "exploration", "round-trip / injectivity / order monitors on generated key sets",
    "SpreadPrefixKeyMapper is run on generated sets of node, partition, field, map and sorted keys built with adversarial near-collisions (prefix/suffix relatives, 0x00/0xFF runs, keys shaped like other keys' database form, sizes 0..4136): round trip through typed and generic functions, per-kind injectivity by sort + adjacent compare, sorted-prefix order on boundary prefixes.",
    _PURE_NOTE + " Injectivity is demanded per key kind (a partition holds one kind).", "DESIGN.md §4 C16")
reg("C28", "rv-ident", "exploration", "differential monitoring against independent Bech32m / id grammars",
    "Address encode/decode over 28 network definitions (22 custom near-colliding HRP suffixes) x every entity byte against an independent BIP-173/350 reference; typed addresses accept exactly their entity class; every other network rejects; crafted valid-checksum texts rejected; non-fungible local/global ids judged by an independent grammar through value, text, SBOR and byte forms; parsing under catch_unwind.",
    _PURE_NOTE, "DESIGN.md §4 C28")
reg("C37", "rv-ident", "exploration", "exhaustive-universe evaluation of constraint meaning",
    "Every generated ManifestResourceConstraint / GeneralResourceConstraint is evaluated on all 128 subsets of a 7-id universe (x foreign ids) and on a boundary grid of fungible amounts against the mathematical meaning computed with BigInt and bit masks; normalize() must not change the accepted set; a constraint declared valid must have a witness balance that is accepted.",
    _PURE_NOTE + " The engine-side half (worktop assertions in executed manifests) is covered by the C09 check.", "DESIGN.md §4 C37")
reg("C48", "rv-ident", "exploration", "sign/verify/mutate monitors on the real crypto libraries",
    "For generated keys and messages: sign -> verify, secp256k1 recovery -> signer, every position of signature and key and up to 48 message positions mutated (bit flips, random masks, all 255 masks on sampled positions and on the recovery-id byte) must fail verification; BLS aggregate / fast-aggregate verification against 15+ valid and invalid compositions; small-order Ed25519 points and BLS infinity key probes.",
    _PURE_NOTE + " Adversarially cancelling pairs of invalid BLS components are not constructed.", "DESIGN.md §4 C48")

_LEDGER_NOTE = "Trusted: the SBOR substate types + database key mapper used to decode raw substates, num-bigint, the harness. Observes only the executions of the seeded workload (single process/architecture); all global monitors (C02,C03,C04,C05,C06,C11,C43,C44,C49,C51) are armed in every ledger run."
_MIX = "Long seeded ledger histories of mixed transactions (mint/burn/transfer/recall/freeze/NF mint+burn+data update/metadata/failing transactions/fee-lock variants/round+epoch changes, adversarial amounts) are executed on the real engine; "
reg("C03", "rv-engine", "exploration", "conservation monitor over raw pre/post substates and receipt events",
    _MIX + "for every committed transaction the sum of vault balance changes per resource (read from the raw pre- and post-state substates), the total-supply field change and the non-fungible id sets are compared with minted minus burned taken from the receipt's events (BigInt).",
    _LEDGER_NOTE, "DESIGN.md §4 C03")
reg("C04", "rv-engine", "exploration", "whole-database walker + full event replay oracle",
    _MIX + "every N commits and at the end an own walker sums all vaults per resource, compares with recorded supplies, checks non-negative balances and NF vault counts, and replays every event emitted since genesis to recompute all vault balances and supplies; per transaction each vault's balance change must equal the replay of its own events. The repository's resource checker/reconciler runs as a second opinion.",
    _LEDGER_NOTE, "DESIGN.md §4 C04")
reg("C05", "rv-engine", "exploration", "whole-database well-formedness walker",
    _MIX + "every N commits and at the end an own walker checks single ownership of every internal node, global-only references, presence of state/type info for every owned or referenced entity and consistency of the entity-type byte with the stored blueprint; schema conformance and role-assignment validity are checked by running the repository's SystemDatabaseChecker + RoleAssignmentDatabaseChecker on the same states. Secondary workload (rv-probe): SysProbe components write values listing one Own twice (tuple, array, separated by data, re-write of an open entry) into own collection entries and held key-value stores; an accepted write is a violation and the walkers run after any commit that followed such a step.",
    _LEDGER_NOTE + " Schema conformance clause trusts sbor payload validation (monitored separately by C22).", "DESIGN.md §4 C05")
reg("C02", "rv-engine", "fault_enumeration", "fault-injection sweep + failure-shape allow-list monitor",
    "For each generated manifest on an aged ledger the number n of injectable system-callback steps is learned, then the manifest is re-executed from the same snapshot with a system error injected at every step 1..=n (or 250 spread points when n > 300); each commit-failure receipt's raw state diff and events are classified against the allow-list of the property (fee vault balances by exactly -payment, validator reward bookkeeping, replay-protection record, fee events only) and the whole-database walkers run on sampled post-failure states. Natural failures of the workload are classified the same way in every ledger run.",
    _LEDGER_NOTE + " Injected error kind is the costing error of scrypto-test's injector.", "DESIGN.md §4 C02")

_STORE_NOTE = "Trusted: blake2b hashing, the BTreeMap model and from-scratch commitment in the harness, RocksDB itself. Generated keys honour the Jellyfish tree's documented prefix-free precondition. Decides only the seeded histories produced."
reg("C12", "rv-track", "exploration", "reference-model monitor (BTreeMap base + overlay) on the real Track",
    "Random operation histories (create_node, get, set, remove, force_write, mark_as_transient, scan_keys, drain_substates, scan_sorted_substates with limits around the present count, reverts, finalize) run on the real Track over random base databases and are compared step by step with an overlay model written from the property text; the final state updates applied to the base must equal the model and mention only written substates; after revert only force-written substates may remain.",
    "Trusted: InMemorySubstateDatabase as base store, the key mapper for database order. In-engine Track traffic is not hooked (direct API only).", "DESIGN.md §4 C12")
reg("C13", "rv-track", "exploration", "reader/writer model over lock event logs (direct + hook H2)",
    "A reader/writer model keyed by (node, partition, key) judges every grant, refusal and release: (a) random lock/unlock/query histories on the real SubstateLocks, (b) the lock event log emitted by hook H2 while real transactions run (re-entrancy and recursion packages, failing transactions, proofs, fee locks, mixed ledger workload).",
    "Trusted: hook H2 reports each lock()/unlock() call faithfully (3 add-only emit sites).", "DESIGN.md §4 C13")
reg("C14", "rv-store", "exploration", "differential monitoring of overlay vs model after every commit",
    "W-DB commit histories (deltas, deletes, partition resets, reset-then-delta, emptied partitions) are applied to overlays of five kinds; after every commit every get and every ordered listing from every interesting cursor is compared with a BTreeMap model, and the merged base with the model and with a base that received the commits directly.",
    _STORE_NOTE, "DESIGN.md §4 C14")
reg("C15", "rv-store", "exploration", "differential monitoring of three store implementations vs model",
    "The same W-DB history is committed to the in-memory store, the RocksDB store and the RocksDB+Merkle store (pruning on/off, random close+reopen); after each commit gets, sorted listings from every cursor and the set of partitions are compared with the BTreeMap model.",
    _STORE_NOTE, "DESIGN.md §4 C15")
reg("C17", "rv-store", "exploration", "independent from-scratch sparse-Merkle commitment oracle",
    "After every commit the root produced by the real state tree (typed, serialized, pruning and StateTreeUpdatingDatabase stores) is compared with a history-independent three-tier sparse-Merkle commitment recomputed from scratch over the model's current substates; each history is applied one commit per update, in random batches and as a single batch; empty state must have the zero root; listed substate hashes must equal the hashes of stored values.",
    _STORE_NOTE, "DESIGN.md §4 C17")
reg("C18", "rv-store", "exploration", "reachability walker over the real tree stores",
    "An own tier-aware walker (get_node + child key generation) checks after every commit that every node reachable from the current root is present in a pruning store and that every part reported stale is unreachable from the root of that commit and of all later commits.",
    _STORE_NOTE, "DESIGN.md §4 C18")
reg("C19", "rv-store", "fault_enumeration", "crash-point sweep with real process death (hook H3)",
    "For every commit of a W-DB history and every individual write of that commit (crash points of hook H3) a child process replays the history and aborts right before that write; the parent reopens the RocksDB directory and requires (version, root) to be the pre- or post-commit pair, the stored substates to be exactly that version's, the root to equal the from-scratch commitment of what is stored and the tree to be fully walkable. Pruning on and off.",
    _STORE_NOTE + " Models process death (kill -9), not power loss with lost un-fsynced WAL tails.", "DESIGN.md §4 C19")
reg("C20", "rv-sbor", "exploration", "differential monitoring against an independent wire-format reader/writer",
    "Generated value trees and byte strings (16 mutators) for the Basic, Scrypto and Manifest flavours: encode must equal an independent writer and decode back equal; the decoder accepts a byte string iff an independent reader of the wire format does, with equal trees and identical re-encoding.",
    _PURE_NOTE, "DESIGN.md §4 C20")
reg("C21", "rv-sbor", "exploration", "three-way differential (decoder/traverser/encoder) + allocation monitor",
    "Hostile payloads under random depth limits: no panic; peak heap of a decode measured with a counting allocator against a size-proportional bound; decoder, traverser and encoder must agree on acceptance and on the depth threshold; a 29-type typed-codec roster must share the threshold; memory-unsafe typed paths are probed in child processes.",
    _PURE_NOTE + " Depth limit 0 is outside the monitored domain.", "DESIGN.md §4 C21")
reg("C22", "rv-sbor", "exploration", "harvest-and-mutate monitor: typed codec vs generated schema",
    "For 243 engine types payloads generated from the type's own schema, harvested from a real in-memory genesis bootstrap, and their tree/byte mutants: typed decode accepts => the payload validates against the type's generated schema; encode(decode(p)) validates and decodes back equal.",
    _PURE_NOTE, "DESIGN.md §4 C22")
reg("C23", "rv-sbor", "exploration", "payload-level soundness oracle for schema comparison",
    "Random schema pairs (22 mutation kinds) under 8 comparison settings; whenever the comparison claims valid extension (or equality) payloads generated from the base schema (and from both) are validated under both schemas; a base-valid payload rejected by the new schema refutes the claim.",
    _PURE_NOTE, "DESIGN.md §4 C23")
reg("C30", "rv-manifest", "exploration", "round-trip monitor decompile -> compile",
    "Generated manifests of all four kinds with valid object lifecycles and hostile argument values / names are decompiled and recompiled; instructions with all argument values, blobs, preallocated addresses, children and known object names must be identical.",
    _PURE_NOTE, "DESIGN.md §4 C30")
reg("C31", "rv-manifest", "exploration", "totality + determinism monitor under catch_unwind",
    "Random, token-soup and mutated manifest texts with every line-ending convention and multi-byte characters are compiled twice for every manifest kind and, on error, rendered twice in both diagnostic styles; any panic or differing second answer is a violation.",
    _PURE_NOTE, "DESIGN.md §4 C31")
reg("C36", "rv-manifest", "exploration", "independent lifecycle checker vs static interpreter (soundness direction)",
    "Random instruction sequences with injected id faults for all manifest kinds and rulesets: every manifest the StaticManifestInterpreter accepts must pass an independent linear-scan lifecycle checker written from the property text. The run-time half (accepted manifests never fail for unknown/consumed buckets or proofs) is monitored by the C09 ledger check, which reports under C36.",
    _PURE_NOTE, "DESIGN.md §4 C36")
reg("C32", "rv-tx", "exploration", "round-trip, reference hash composition and single-field sensitivity monitors",
    "Generated V1/V2/partial/ledger/system payloads: raw -> prepare -> re-encode identity and hashes equal an independent reference composition; 78 single-field typed edits must change exactly the covering hashes; non-canonical payloads (trailing bytes, wrong discriminators, padded sizes, over-limit sizes) must be rejected; accepted byte mutants must re-encode identically.",
    _PURE_NOTE, "DESIGN.md §4 C32")
reg("C33", "rv-tx", "exploration", "ground-truth signer-set oracle + exhaustive byte mutation",
    "The harness owns all keys and signs over reference hashes; accepted transactions must have an honest notary signature and only honest intent signatures, with the executable's signer proofs equal to the honest signer set (+notary iff signatory); every byte of short notarized transactions x 10 masks and thousands of random mutations of long ones must be rejected or leave content hashes and signer sets unchanged.",
    _PURE_NOTE + " The mutation clause is applied to notarized transactions (a signed partial transaction has no notary).", "DESIGN.md §4 C33")
reg("C34", "rv-tx", "exploration", "independent limit predicate with limit-1/limit/limit+1 probes",
    "An independent predicate over plain facts of the typed model and the validation config; 20 limit dimensions are probed at limit-1, limit and limit+1 on otherwise valid V1/V2/partial transactions under babylon, cuttlefish and random configs; the V2 overall validity window must equal the intersection of all intents' windows.",
    _PURE_NOTE, "DESIGN.md §4 C34")
reg("C35", "rv-tx", "exploration", "independent graph oracle on accepted subintent trees",
    "Mock intent trees (incl. self-loops, cycles, islands) and real V2 / partial transactions assembled field by field (shared, missing, duplicated children, depth +-1, yield count mismatches): every tree the validator accepts must pass an independent graph check of the property's conditions.",
    _PURE_NOTE, "DESIGN.md §4 C35")
reg("C06", "rv-engine", "exploration", "fee-equation monitor over receipts and raw vault substates",
    "Transactions of the default mix re-packaged with generated tip specifiers and accepted costing-parameter overrides, several (contingent) fee locks, and lock-fee amounts bisected to the reject/commit boundary; every committed receipt must satisfy: payments + free credit = total cost, proposer + validator set + burn + royalties = total cost, PayFee events = payments, royalties credited to royalty vaults, cost units within limits; vault deltas are reconciled with their events.",
    _LEDGER_NOTE + " Cost-unit metering (how many units an operation costs) is not re-derived.", "DESIGN.md §4 C06")
reg("C11", "rv-engine", "exploration", "panic / native-trap monitor over all ledger workloads",
    _MIX + "every execution is wrapped in catch_unwind and every receipt is scanned for native traps / system panics (the panic hook records panics swallowed by the native VM's own catch_unwind). The same monitor is armed in every other ledger check (auth, flow, account, pools, staking, intents ...), which contribute their hostile inputs.",
    _LEDGER_NOTE + " Schema-driven fuzzing of every native function is not yet part of this check.", "DESIGN.md §4 C11")
reg("C43", "rv-engine", "exploration", "history-set monitor of minted ids + data-entry diff monitor",
    _MIX + "a history-long set of ever-minted (resource, id) pairs flags any second mint (explicit, RUID, after burn, after failed transactions); each minted id must have the resource's id type; every change of a stored non-fungible data entry is diffed field by field against the resource's mutable-field set.",
    _LEDGER_NOTE, "DESIGN.md §4 C43")
reg("C44", "rv-engine", "exploration", "ordering monitor on the stored clock + time-query agreement oracle",
    "Round-change system transactions with arbitrary rounds/timestamps/leader gaps under several epoch-change conditions: after every commit the stored proposer milli/minute timestamps and (epoch, round) must be monotone, epoch +1 with round reset, minute = floor(milli/60000); get_current_time / compare_current_time results returned to callers must agree with the recorded clock at both precisions.",
    _LEDGER_NOTE, "DESIGN.md §4 C44")
reg("C49", "rv-engine", "exploration", "limit monitor on every committed user transaction (hook H4)",
    _MIX + "for every committed user transaction: event/log counts and sizes, written substate value sizes, deepest call frame entered and largest invoke payload (hook H4) must be within the configured limits.",
    _LEDGER_NOTE + " Boundary probes (exactly L / L+1 of each quantity) are not yet part of this check.", "DESIGN.md §4 C49")
reg("C51", "rv-engine", "exploration", "locked-bytes-never-change monitor + lock scripts",
    "Lock scripts on metadata entries and owner roles of accounts and resources followed by update/remove/lock/set-owner attempts by owner, other keys and nobody, interleaved with the default mix; a history-long map of every substate ever seen locked (fields and key-value entries, classified through the receipt's system structure) flags any later change of its bytes; an update of a locked entry must never commit successfully.",
    _LEDGER_NOTE + " Locks taken by custom components (field_lock, key_value_entry_lock) and royalty locks are not exercised here.", "DESIGN.md §4 C51")

# ---- sanitizer post-steps -------------------------------------------------------------------
_MIRI_STEP = dict(
    name="miri-sbor-codecs-and-escaper", tool="cargo +nightly miri run (rv-miri)",
    cmd=["cargo", "+nightly", "miri", "run", "-q", "-p", "rv-miri", "--", "{seed}", "{iters}"],
    env={"MIRIFLAGS": "-Zmiri-disable-isolation -Zmiri-ignore-leaks", "CARGO_TARGET_DIR": "/verif/target/miri"},
    shards={"quick": 4, "thorough": 16}, iterations={"quick": 120, "thorough": 1500},
    ok_marker="MIRI-SHARD", violation_markers=["Undefined Behavior"], timeout=3000,
)
CHECKS["C21"]["post_steps"] = [_MIRI_STEP]
CHECKS["C21"]["note"] += " Sanitizer step: Miri (undefined-behaviour interpreter) over the unsafe array/byte-vector codecs and the string escaper, leak checking off."

reg("C08", "rv-auth", "exploration", "reference access-rule evaluator vs observed authorization outcome",
    "Random access-rule trees up to the validation limits (depth 8, 64 nodes) over fungible / non-fungible / signature badges, with proof placements steered to witnesses and near-misses (amount minus one unit, sum-reaches-but-no-single-proof, exactly k-1 of count-of) and all auth-zone instructions, are attached to 19 vehicles (resource roles, role-assignment and metadata calls with owner fallback, accounts with OwnerRole = R, VERIFY_PARENT assertions flat and nested); authorization must pass iff an independent evaluator of the documented semantics says the applicable rule is satisfied (both directions verdict-bearing).",
    _LEDGER_NOTE + " Package function auth and assert_access_rule from a custom blueprint are not covered (VERIFY_PARENT is the explicit-assertion vehicle).", "DESIGN.md §4 C08")

reg("C07", "rv-intent", "exploration", "history oracle (committed-intent model) over long epoch histories",
    "Ledgers with 1-round epochs advanced only by real round-change transactions (quick 16 x 2500 epochs; thorough incl. histories of 27000 epochs = more than one full turn of the 19100-epoch tracker ring); real notarized V1/V2 transactions (0-4 subintents, failing roots/children) with epoch windows of every shape allowed by validation are committed and resubmitted in the same/next epoch, at random later epochs, around every tracker-partition rotation, at end-1, end and after; a harness-side model keyed by its own intent ids predicts which submissions must be rejected; a commit of such a submission is a violation.",
    _LEDGER_NOTE + " Histories with epoch jumps larger than one per round are not explored. 'forever' is restated as: every resubmission of the explored history.", "DESIGN.md §4 C07")
reg("C41", "rv-pool", "exploration", "BigInt solvency / fairness oracle over pool operation sequences",
    "One/two/multi-resource pools (divisibilities 0,1,6,17,18) under random sequences of contribute / redeem / round trips / protected deposit+withdraw / drying and re-contribution with adversarial amounts: for each redemption paid_i*S <= u*R_i with pre-state read from the database, payouts multiples of the divisibility unit, accepted + change = offered exactly, accepted amounts in the pool ratio within one rounding unit, contribute-then-redeem never returns more, reserves never negative.",
    _LEDGER_NOTE + " Ratio tolerance: one divisibility unit + the PreciseDecimal intermediate precision.", "DESIGN.md §4 C41")
reg("C42", "rv-stake", "exploration", "BigInt proportionality oracle over staking histories and epoch changes",
    "Per-episode genesis (1-3 genesis validators, max_validators 1-5, 1-round epochs, varied emission/reliability/unstake delays), up to 12 validators and random register/unregister/stake/unstake/claim/fee/lock operations with missed proposals: units*X <= amount*S on stake, XRD out <= proportional share on unstake and claim, stake-then-unstake never gains, per epoch minted emission <= configured amount and rewards <= reward vault, validator set members registered with stake > 0, ordered by stake, size <= max.",
    _LEDGER_NOTE, "DESIGN.md §4 C42")
_WASM_NOTE = "Trusted: wasmi 0.39.1 as the reference interpreter for the un-instrumented module, wasmparser for re-parsing accepted modules, the harness's own rule table transcribed from the documented limits and host import list."
reg("C45", "rv-wasm", "exploration", "totality monitor + independent rule checker on every accepted module",
    "validate() runs under catch_unwind on byte-mutated valid modules, raw bytes, hostile export names/shapes and WAT modules violating exactly one rule at limit-1/limit/limit+1; every accepted output module is re-parsed and checked by an independent rule checker (no floats, no start, single bounded exported memory, bounded tables/functions/params/locals/globals/br_table, only permitted env imports with their signatures, gas metering at every executing function, stack-height limiter present and effective on recursion).",
    _WASM_NOTE, "DESIGN.md §4 C45")
reg("C46", "rv-wasm", "exploration", "differential execution original-vs-instrumented + cost-shape monitors",
    "Generated compute modules (arithmetic incl. trapping ops, memory, globals, structured control flow, br_table, direct/indirect calls, host imports) are executed un-instrumented under plain wasmi and instrumented under the repository's WasmiModule: results, whole memory, globals, trap class and host-call sequence must agree; charged units must be identical across instances and cold/cached engine, exactly affine in the iteration count for loop families, and identical for inputs that drive the same path.",
    _WASM_NOTE + " Cost is checked as a deterministic function of the path (determinism + affinity), not re-derived per instruction.", "DESIGN.md §4 C46")
reg("C47", "rv-wasm", "exploration", "byte-exact memory model vs recorded host-side buffers",
    "A module importing all 49 host functions with pattern-filled memory is driven with (pointer, length) pairs from {0,1,size-1,size,size+1,2^31,2^32-1, exact fit, one over, random}, memory growth around the call and returned slices: in range the monitoring runtime must have received exactly the model's bytes (writes replace exactly the range), out of range the call must fail with MemoryAccessError without reaching the host and leave memory equal to the model; any panic is a violation.",
    _WASM_NOTE + " Exercises the wasmi glue (where all memory accesses live), not full transactions through ScryptoRuntime.", "DESIGN.md §4 C47")

reg("C01", "rv-determinism", "exploration", "byte-level digest comparison across re-executions (flags, cache, threads, processes)",
    "Each sampled transaction of long mixed histories (incl. WAT packages, pools, batches, rejects, epoch changes) is executed uncommitted under a reference configuration and then again: identically, under the diagnostic flag combinations (kernel trace, cost breakdown, execution trace depths, debug information), with a cold vs warm code cache, on 16 threads released together against a shared database and cache, as the committed execution, and in a second process replaying the same history; a canonical byte digest of kind, outcome, state updates (order included), events, logs, fee summary/source/destination, new entities and nullifications must be identical in all of them.",
    _LEDGER_NOTE + " Same machine and architecture only; no TSan build.", "DESIGN.md §4 C01",
    watchdog={"quick": 2400, "thorough": 4 * 3600})

reg("C40", "rv-accessctl", "exploration", "safety monitor over the access-controller call history (role-level model)",
    "Random scripts of all 21 controller methods (plus direct role-assignment attacks) under every kind of badge presentation, with proposals drawn from a small pool (equal / near-miss / stale contents), cancels, locks, and time advanced by real round changes to just before / at / after the configured delay, on latest-protocol (v2 code), Anemone-only (v1 code) and upgraded ledgers; after every transaction the stored rules and the controlled-asset vault are compared with a model that allows a change only for a different-role confirmation of the identical pending proposal or the recovery role's own timed proposal after its delay; create_proof must fail while primary is locked.",
    _LEDGER_NOTE + " Delay elapsed is judged at minute resolution as the controller does.", "DESIGN.md §4 C40")

def _valgrind_step(binary, prop, scale):
    return dict(
        name=f"valgrind-memcheck-{prop}", tool="valgrind 3.19 memcheck on the release binary",
        cmd=["valgrind", "--error-exitcode=9", "-q", "--errors-for-leak-kinds=none", f"/verif/target/release/{binary}", prop, "quick", "--threads", "1", "--seed", "{seed}"],
        env={"VERIF_SANITIZER_SLICE": "1", "VERIF_SCALE": scale, "VERIF_BUDGET_S": "120"},
        cwd="/verif", shards={"quick": 2, "thorough": 8}, iterations={"quick": 0, "thorough": 0},
        ok_marker="SUMMARY property=", timeout=2400,
        violation_markers=["Invalid read", "Invalid write", "Invalid free", "Mismatched free", "uninitialised value", "Source and destination overlap"],
    )
CHECKS["C48"]["post_steps"] = [_valgrind_step("rv-ident", "C48", "0.0005")]
CHECKS["C48"]["note"] += " Sanitizer step: valgrind memcheck over a slice of the sign/verify/mutate workload (blst, secp256k1 FFI and the transmutes in signature_validator.rs)."
CHECKS["C47"]["post_steps"] = [_valgrind_step("rv-wasm", "C47", "0.01")]
CHECKS["C47"]["note"] += " Sanitizer step: valgrind memcheck over a slice of the host-call workload (wasmi glue)."

_FLOW = "Raw instruction sequences (47 instruction kinds, V1 and V2) over accounts holding fungibles of divisibility 0/2/18, non-fungibles and XRD are generated by stepping a reference model of the transaction processor (worktop, buckets, proofs with per-container locks, auth zone) and aiming at boundaries (exactly the balance / the withdrawable amount, +-1 unit, divisibility violations, stale and consumed ids); each manifest gets a blind tidy ending so that a wrongly accepted step commits visibly; "
reg("C09", "rv-flow", "exploration", "manifest-level reference model of worktop/bucket/proof semantics vs receipts and final vaults",
    _FLOW + "a manifest predicted to fail for a lifecycle reason must not succeed, assertion outcomes must equal the model's, and after success every account vault must equal the model's final holdings (conservation itself is the global C03 monitor).",
    _LEDGER_NOTE + " 5-7 % of cases (amount-based takes of non-fungibles, proofs composed over several containers) get no verdict.", "DESIGN.md §4 C09")
reg("C10", "rv-flow", "exploration", "container lock model (max of live proofs) vs observed take/burn/recall outcomes",
    _FLOW + "each vault/bucket keeps a multiset of live proofs; taking, burning, recalling or depositing beyond content - max(proofs) (ids: content minus proven ids) must fail, exactly the withdrawable amount and the full amount after all proofs are dropped must succeed, divisibility violations must fail.",
    _LEDGER_NOTE, "DESIGN.md §4 C10")
reg("C38", "rv-flow", "exploration", "observed account deposits/withdrawals vs static analyser bounds",
    _FLOW + "for every manifest the static resource-movement analyser accepts and whose execution succeeds, the gross deposits and withdrawals per account and resource (from the vaults' own events) and the net change (pre/post database) must lie within the analyser's per-invocation and aggregated bounds (lower/upper amounts, required ids moved, ids within allow-lists, nothing moved where no invocation may move it).",
    _LEDGER_NOTE + " The faucet stands in as the unknown component; manifests that recall from / burn inside an observed account are skipped.", "DESIGN.md §4 C38")
CHECKS["C36"]["note"] += " Run-time half: rv-flow executes every generated manifest regardless of the static verdict and reports an accepted manifest failing with BucketNotFound/ProofNotFound/AddressReservationNotFound under C36 (run `./check C09` / `/verif/target/release/rv-flow C36 quick`)."

reg("C39", "rv-account", "exploration", "decision-table oracle (exhaustive finite table + random histories) vs observed deposits",
    "The finite table of the property (default rule x preference history x vault history x authorized-depositor list x named badge x proof presence x single/batch composition incl. all 341 bucket sequences of length 0-4 x four method variants; 48112 cases, complete in the thorough tier, sampled in quick) and random histories on fresh and aged accounts are executed as third-party guarded deposits; the predicted outcome class (all deposited / all refunded / call failed) is compared with the call's own return value, exact pre/post balances and id sets of target, sender and a bystander account, refunded bucket contents, and the set of vaults written.",
    _LEDGER_NOTE + " 'Already holds' = has a vault (a zero-balance vault counts); latest protocol only.", "DESIGN.md §4 C39")

# C11: the dedicated schema-driven fuzzer is the registered check (the panic/trap monitor stays armed in
# every other ledger check as well).
reg("C11", "rv-fuzz", "exploration", "panic / native-trap monitor under schema-driven fuzzing of every native function",
    "All 246 functions and methods of the 29 native blueprints are enumerated from the genesis database with their input schemas, receivers and auth templates; each call is one transaction whose arguments come from a schema-walking generator (extreme numbers, empty/huge collections, every enum variant + unknown discriminators, right- and wrong-kind real addresses, real/foreign/empty/reused buckets and proofs, existing/burned/wrong-type ids), from verbatim or one-leaf-hostile arguments of successful calls, and from byte mutants that still decode; receivers include frozen vaults, dried pools, unregistered/locked validators, controllers in recovery, locked metadata/owner roles; bucket/proof/vault/auth-zone methods are reached through a proxy component. Every execution runs under catch_unwind and the receipt is scanned for native traps / system panics (the panic hook records panics swallowed by the native VM).",
    _LEDGER_NOTE + " Functions no user transaction can call are additionally exercised with auth disabled as observations only. Notarized/subintent transactions and non-genesis costing are covered by other checks (C07, C06).", "DESIGN.md §4 C11",
    watchdog={"quick": 1800, "thorough": 4 * 3600})

reg("C50", "rv-probe", "exploration", "system-call script interpreter (native SysProbe blueprint) + ownership model oracle",
    "A native probe blueprint published under two package addresses (same blueprint names, different packages; with an inner blueprint) interprets random 30-step scripts of system calls (new_object of own/foreign blueprints and outers, drop_object, globalize, actor field/KV access, key-value store access on stores it does not own, method calls, address reservations) on nodes it owns, receives as arguments or forges by id; the harness knows each node's blueprint and outer from the creating step / stored TypeInfo: create/drop/globalize/state access on foreign objects must return an error, never-called victim components must have zero state updates in every commit, own-object operations and Proof::drop by the holder must not be refused with an access error.",
    _LEDGER_NOTE + " Scripts stop after the first failed invocation (a WASM component would have trapped); SystemApi routes only, fungible resources as targets.", "DESIGN.md §4 C50")
reg("C49", "rv-probe", "exploration", "limit boundary probes (exactly L / L+1) + limit monitor on every commit (hook H4)",
    "Under random LimitParameters overrides, programs calibrated to produce exactly L and L+1 of each limited quantity (event count, log count, event size, log size, substate key size, value size, invoke payload size, call depth, heap bytes, track bytes; thresholds for the memory quantities found by bisection) run from the same snapshot: L must succeed and L+1 must fail with the matching TransactionLimitsError. Additionally every committed user transaction of the long mixed histories is checked against the configured limits (events/logs counts and sizes, written value sizes, deepest frame and largest invoke payload from hook H4).",
    _LEDGER_NOTE, "DESIGN.md §4 C49")
CHECKS["C49"]["also"] = ["rv-engine"]
CHECKS["C11"]["also"] = ["rv-engine"]
CHECKS["C51"]["also"] = ["rv-probe"]
CHECKS["C05"]["also"] = ["rv-probe"]
CHECKS["C51"]["text"] += " A second workload (rv-probe) exercises locks taken by a custom component: field_lock, key-value entry locks (collection and owned store) and component royalty lock, followed by write/set/remove attempts in later transactions."
CHECKS["C51"]["note"] = _LEDGER_NOTE
CHECKS["C36"]["also"] = ["rv-flow"]
