"""Registry of claimed checks: property id -> binary, level, texts. MANIFEST.json is generated
from this table by gen_manifest.py; ./check reads it to find the binary."""

CHECKS = {}

def reg(pid, bin, level, technique, text, note, design_ref, watchdog=None):
    CHECKS[pid] = dict(bin=bin, level=level, technique=technique, text=text, note=note,
                       design_ref=design_ref, watchdog=watchdog or {"quick": 1500, "thorough": 4 * 3600})

# Reasons for properties not (yet) claimed. Every property id that is not in CHECKS must be here.
UNCLAIMED_DEFAULT = "monitor for this property is designed (DESIGN.md section 4) but not yet built and validated; not claimed rather than claimed with a different technique"
UNCLAIMED = {}
